(* proofs/C15.v — property C15 (dialog pins: honoured for their lifetime, never after,
   dissolved on termination, expired pins purged so the table stays bounded) proved of the
   model Pins.v for ALL histories, and the executable judge SpecC15.judge_C15 proved to accept
   every observation the model produces.  No axioms, no admits. *)
From Coq Require Import List Ascii String ZArith Bool Lia.
From Coq Require Import ZifyBool ZifyNat.
From Model Require Import Bytes BytesLemmas Pins SpecC15.
Import ListNotations.
Open Scope Z_scope.

(* ------------------------------------------------------------------ association lists *)
Lemma adel_in {V} k x (m : list (bytes * V)) : In x (adel k m) -> In x m.
Proof.
  induction m as [|[k' v'] r IH]; cbn; [tauto|].
  destruct (beq k k'); cbn; intros H.
  - right. apply IH. exact H.
  - destruct H as [H|H]; [left; exact H|right; apply IH; exact H].
Qed.

Lemma adel_keys_in {V} k x (m : list (bytes * V)) :
  In x (map fst (adel k m)) -> In x (map fst m).
Proof.
  intros H. apply in_map_iff in H. destruct H as [kv [E H]]. subst x.
  apply in_map. apply (adel_in k). exact H.
Qed.

Lemma adel_keys_nodup {V} k (m : list (bytes * V)) :
  NoDup (map fst m) -> NoDup (map fst (adel k m)).
Proof.
  induction m as [|[k' v'] r IH]; cbn; intros ND; [constructor|].
  inversion ND as [|k0 l0 Hnin Hnd]; subst.
  destruct (beq k k'); cbn.
  - apply IH. exact Hnd.
  - constructor; [|apply IH; exact Hnd].
    intros H. apply Hnin. apply (adel_keys_in k). exact H.
Qed.

Lemma filter_keys_in {V} f x (m : list (bytes * V)) :
  In x (map fst (filter f m)) -> In x (map fst m).
Proof.
  intros H. apply in_map_iff in H. destruct H as [kv [E H]]. subst x.
  apply in_map. apply filter_In in H. apply H.
Qed.

Lemma filter_keys_nodup {V} f (m : list (bytes * V)) :
  NoDup (map fst m) -> NoDup (map fst (filter f m)).
Proof.
  induction m as [|[k' v'] r IH]; cbn; intros ND; [constructor|].
  inversion ND as [|k0 l0 Hnin Hnd]; subst.
  destruct (f (k', v')); cbn.
  - constructor; [|apply IH; exact Hnd].
    intros H. apply Hnin. apply (filter_keys_in f). exact H.
  - apply IH. exact Hnd.
Qed.

Lemma Forall_aset {V} (Q : V -> Prop) k v (m : list (bytes * V)) :
  Forall (fun kv => Q (snd kv)) m -> Q v -> Forall (fun kv => Q (snd kv)) (aset k v m).
Proof.
  intros HF Hv. induction m as [|[k' v'] r IH]; cbn.
  - constructor; [exact Hv|constructor].
  - inversion HF as [|x l Hx Hl]; subst.
    destruct (beq k k'); constructor; try assumption.
    apply IH. exact Hl.
Qed.

Lemma Forall_adel {V} (P : bytes * V -> Prop) k (m : list (bytes * V)) :
  Forall P m -> Forall P (adel k m).
Proof.
  intros HF. apply Forall_forall. intros x Hx.
  apply (proj1 (Forall_forall _ _) HF). apply (adel_in k). exact Hx.
Qed.

Lemma Forall_filter {A} (P : A -> Prop) f (m : list A) : Forall P m -> Forall P (filter f m).
Proof.
  intros HF. apply Forall_forall. intros x Hx.
  apply (proj1 (Forall_forall _ _) HF). apply filter_In in Hx. apply Hx.
Qed.

Lemma filter_all {A} (m : list A) : filter (fun _ => true) m = m.
Proof. induction m as [|x m IH]; cbn; [reflexivity|]. rewrite IH. reflexivity. Qed.

(* the sweep, seen through look-ups *)
Lemma alookup_clean now k tab : NoDup (map fst tab) ->
  alookup k (pins_clean now tab) =
  match alookup k tab with
  | Some e => if Z.ltb (pin_expire e) now then None else Some e
  | None => None
  end.
Proof.
  unfold pins_clean.
  induction tab as [|[k' v'] r IH]; cbn [filter alookup map fst snd]; intros ND; [reflexivity|].
  inversion ND as [|k0 l0 Hnin Hnd]; subst.
  destruct (beq k k') eqn:E.
  - apply beq_eq in E. subst k'.
    destruct (Z.ltb (pin_expire v') now); cbn [negb alookup].
    + apply alookup_none. intros H. apply Hnin. apply filter_keys_in in H. exact H.
    + rewrite beq_refl. reflexivity.
  - destruct (Z.ltb (pin_expire v') now); cbn [negb alookup].
    + apply IH. exact Hnd.
    + rewrite E. apply IH. exact Hnd.
Qed.

Lemma alookup_clean_none now k tab :
  alookup k tab = None -> alookup k (pins_clean now tab) = None.
Proof.
  intros H. apply alookup_none. apply alookup_none in H.
  intros H1. apply H. unfold pins_clean in H1. apply filter_keys_in in H1. exact H1.
Qed.

(* ------------------------------------------------------------------ arithmetic of lifetimes *)
Lemma wrap64_small z : 0 <= z < two63 -> wrap64 z = z.
Proof.
  intros H. unfold wrap64. rewrite Z.mod_small; [lia|]. unfold two63 in *. lia.
Qed.

Lemma second_ns s : s * second = c15_ns s.
Proof. reflexivity. Qed.

Lemma ns_small s : 0 <= s <= c15_max_seconds -> 0 <= c15_ns s < two63.
Proof. unfold c15_max_seconds, c15_ns, two63. lia. Qed.

Lemma new_timeout ts now : 0 <= ts <= c15_max_seconds -> p_timeout (pins_new ts now) = c15_ns ts.
Proof.
  intros H. unfold pins_new. cbn [p_timeout]. rewrite second_ns.
  apply wrap64_small. apply ns_small. exact H.
Qed.

(* in the domain of C15 no product wraps and the lifetime is max(timeout, Expires) *)
Lemma lifetime_domain ts p e :
  0 <= ts <= c15_max_seconds -> 0 <= e <= c15_max_seconds -> p_timeout p = c15_ns ts ->
  pins_lifetime p e = c15_ns (Z.max ts e).
Proof.
  intros Hts He HT. unfold pins_lifetime. rewrite HT, second_ns.
  rewrite (wrap64_small (c15_ns e)) by (apply ns_small; exact He).
  unfold c15_ns. destruct (Z.ltb_spec (ts * 1000000000) (e * 1000000000)) as [H|H]; lia.
Qed.

Lemma ns_max_ge ts e : c15_ns ts <= c15_ns (Z.max ts e).
Proof. unfold c15_ns. lia. Qed.

(* ------------------------------------------------------------------ histories as folds *)
Definition pins_exec (st : Z * pins) (ops : list pin_op) : Z * pins :=
  fold_left (fun s o => fst (pins_step s o)) ops st.

Lemma run_exec ops : forall st, fst (pins_run st ops) = pins_exec st ops.
Proof.
  induction ops as [|o r IH]; intros st; cbn [pins_run pins_exec fold_left]; [reflexivity|].
  destruct (pins_step st o) as [st1 x] eqn:Es.
  specialize (IH st1). destruct (pins_run st1 r) as [st2 xs] eqn:Er.
  cbn [fst] in *. exact IH.
Qed.

Lemma exec_app st a b : pins_exec st (a ++ b) = pins_exec (pins_exec st a) b.
Proof. unfold pins_exec. apply fold_left_app. Qed.

(* the state reached by a history from the initial state *)
Definition after (ts : Z) (ops : list pin_op) : Z * pins :=
  fst (pins_run (0, pins_new ts 0) ops).

Lemma after_exec ts ops : after ts ops = pins_exec (0, pins_new ts 0) ops.
Proof. apply run_exec. Qed.

Lemma domain_split ts ops :
  pins_domain ts ops = true <-> 0 <= ts <= c15_max_seconds /\ forallb pin_op_ok ops = true.
Proof. unfold pins_domain. rewrite !andb_true_iff, !Z.leb_le. tauto. Qed.

Lemma ok_app a b :
  forallb pin_op_ok (a ++ b) = true <-> forallb pin_op_ok a = true /\ forallb pin_op_ok b = true.
Proof. rewrite forallb_app, andb_true_iff. tauto. Qed.

(* time that passes during a history *)
Definition elapsed (ops : list pin_op) : Z :=
  fold_right (fun o acc => match o with PAdvance dt => dt + acc | _ => acc end) 0 ops.

Lemma step_time now p o : pin_op_ok o = true ->
  fst (fst (pins_step (now, p) o)) = now + match o with PAdvance dt => dt | _ => 0 end.
Proof.
  intros Hok. destruct o as [k b e|k|k|dt]; cbn [pins_step fst]; try lia.
  - destruct (pins_get now k p). cbn. lia.
  - cbn [pin_op_ok] in Hok. lia.
Qed.

Lemma exec_time ops : forall now p, forallb pin_op_ok ops = true ->
  fst (pins_exec (now, p) ops) = now + elapsed ops.
Proof.
  induction ops as [|o r IH]; intros now p Hok; cbn [pins_exec fold_left elapsed fold_right].
  - cbn [fst]. lia.
  - cbn [forallb] in Hok. apply andb_true_iff in Hok. destruct Hok as [Ho Hr].
    pose proof (step_time now p o Ho) as Ht.
    destruct (fst (pins_step (now, p) o)) as [now1 p1]. cbn [fst] in Ht.
    fold (pins_exec (now1, p1) r). rewrite IH by exact Hr. fold (elapsed r).
    destruct o; lia.
Qed.

Lemma elapsed_nonneg ops : forallb pin_op_ok ops = true -> 0 <= elapsed ops.
Proof.
  induction ops as [|o r IH]; cbn [elapsed fold_right forallb]; intros H; [lia|].
  apply andb_true_iff in H. destruct H as [Ho Hr]. specialize (IH Hr). fold (elapsed r).
  destruct o; cbn [pin_op_ok] in Ho; lia.
Qed.

(* ------------------------------------------------------------------ model invariant *)
(* the next sweep is never further away than one timeout, and nothing in the table expired
   before the instant "one timeout before the next sweep" *)
Definition pinv (now : Z) (p : pins) : Prop :=
  0 <= p_timeout p /\
  p_next_clean p <= now + p_timeout p /\
  NoDup (map fst (p_tab p)) /\
  Forall (fun kv => p_next_clean p - p_timeout p <= pin_expire (snd kv)) (p_tab p).

Lemma pinv_add now k b e p :
  pinv now p -> p_timeout p <= pins_lifetime p e -> pinv now (pins_add now k b e p).
Proof.
  intros (HT & HN & HD & HF) HL. unfold pins_add.
  set (ent := {| pin_backend := b; pin_expire := now + pins_lifetime p e |}).
  assert (HD' : NoDup (map fst (aset k ent (p_tab p)))) by (apply aset_keys_nodup; exact HD).
  destruct (Z.ltb_spec (p_next_clean p) now) as [Hc|Hc]; unfold pinv;
    cbn [p_timeout p_tab p_next_clean].
  - split; [lia|]. split; [lia|]. split.
    + apply filter_keys_nodup. exact HD'.
    + unfold pins_clean. apply Forall_forall. intros kv Hkv.
      apply filter_In in Hkv. destruct Hkv as [_ Hkv]. lia.
  - split; [lia|]. split; [lia|]. split; [exact HD'|].
    apply (Forall_aset (fun e0 => p_next_clean p - p_timeout p <= pin_expire e0)); [exact HF|].
    unfold ent. cbn [pin_expire]. lia.
Qed.

Lemma pinv_get now k p : pinv now p -> pinv now (fst (pins_get now k p)).
Proof.
  intros (HT & HN & HD & HF). unfold pins_get.
  destruct (alookup k (p_tab p)) as [e|]; [|cbn [fst]; repeat split; assumption].
  destruct (Z.ltb now (pin_expire e)); cbn [fst]; [repeat split; assumption|].
  unfold pinv. cbn [p_timeout p_tab p_next_clean].
  split; [lia|]. split; [lia|]. split; [apply adel_keys_nodup; exact HD|apply Forall_adel; exact HF].
Qed.

Lemma pinv_remove now k p : pinv now p -> pinv now (pins_remove k p).
Proof.
  intros (HT & HN & HD & HF). unfold pinv, pins_remove. cbn [p_timeout p_tab p_next_clean].
  split; [lia|]. split; [lia|]. split; [apply adel_keys_nodup; exact HD|apply Forall_adel; exact HF].
Qed.

Lemma pinv_mono now now' p : now <= now' -> pinv now p -> pinv now' p.
Proof.
  intros Hle (HT & HN & HD & HF). unfold pinv.
  split; [lia|]. split; [lia|]. split; assumption.
Qed.

(* the invariant together with "the configured timeout is timeout_s seconds" *)
Definition pinvT (ts now : Z) (p : pins) : Prop := p_timeout p = c15_ns ts /\ pinv now p.

Lemma pinvT_new ts : 0 <= ts <= c15_max_seconds -> pinvT ts 0 (pins_new ts 0).
Proof.
  intros H. pose proof (new_timeout ts 0 H) as HT. pose proof (ns_small ts H) as Hs.
  split; [exact HT|]. unfold pinv. rewrite HT.
  unfold pins_new in *. cbn [p_timeout p_next_clean p_tab map] in *. rewrite HT.
  split; [lia|]. split; [lia|]. split; constructor.
Qed.

Lemma pinvT_step ts now p o :
  0 <= ts <= c15_max_seconds -> pin_op_ok o = true -> pinvT ts now p ->
  pinvT ts (fst (fst (pins_step (now, p) o))) (snd (fst (pins_step (now, p) o))).
Proof.
  intros Hts Hok [HT HI].
  destruct o as [k b e|k|k|dt]; cbn [pins_step pin_op_ok] in *.
  - cbn [fst snd]. split.
    + unfold pins_add. destruct (Z.ltb (p_next_clean p) now); exact HT.
    + apply pinv_add; [exact HI|].
      rewrite (lifetime_domain ts p e Hts) by (try exact HT; lia).
      rewrite HT. apply ns_max_ge.
  - pose proof (pinv_get now k p HI) as HG.
    assert (HT' : p_timeout (fst (pins_get now k p)) = c15_ns ts).
    { unfold pins_get. destruct (alookup k (p_tab p)) as [e|]; [|exact HT].
      destruct (Z.ltb now (pin_expire e)); exact HT. }
    destruct (pins_get now k p) as [p' r]. cbn [fst snd] in *. split; assumption.
  - cbn [fst snd]. split; [exact HT|apply pinv_remove; exact HI].
  - cbn [fst snd]. split; [exact HT|]. apply (pinv_mono now); [lia|exact HI].
Qed.

Lemma pinvT_exec ts ops : forall now p,
  0 <= ts <= c15_max_seconds -> forallb pin_op_ok ops = true -> pinvT ts now p ->
  pinvT ts (fst (pins_exec (now, p) ops)) (snd (pins_exec (now, p) ops)).
Proof.
  induction ops as [|o r IH]; intros now p Hts Hok HI; cbn [pins_exec fold_left].
  - exact HI.
  - cbn [forallb] in Hok. apply andb_true_iff in Hok. destruct Hok as [Ho Hr].
    pose proof (pinvT_step ts now p o Hts Ho HI) as H1.
    destruct (fst (pins_step (now, p) o)) as [now1 p1]. cbn [fst snd] in H1.
    apply IH; assumption.
Qed.

Lemma pinvT_after ts ops : pins_domain ts ops = true ->
  pinvT ts (fst (after ts ops)) (snd (after ts ops)).
Proof.
  intros HD. apply domain_split in HD. destruct HD as [Hts Hok].
  rewrite after_exec. apply pinvT_exec; [exact Hts|exact Hok|apply pinvT_new; exact Hts].
Qed.

(* ------------------------------------------------------------------ C15_swept *)
Definition swept (st : Z * pins) : Prop :=
  Forall (fun kv => fst st <= pin_expire (snd kv) + p_timeout (snd st)) (p_tab (snd st)).

Lemma add_next_clean now k b e p : 0 <= p_timeout p -> now <= p_next_clean (pins_add now k b e p).
Proof.
  intros HT. unfold pins_add.
  destruct (Z.ltb_spec (p_next_clean p) now) as [Hc|Hc]; cbn [p_next_clean]; lia.
Qed.

Lemma add_timeout now k b e p : p_timeout (pins_add now k b e p) = p_timeout p.
Proof. unfold pins_add. destruct (Z.ltb (p_next_clean p) now); reflexivity. Qed.

Lemma swept_add now k b e p :
  pinv now p -> p_timeout p <= pins_lifetime p e -> swept (now, pins_add now k b e p).
Proof.
  intros HI HL. pose proof (pinv_add now k b e p HI HL) as (HT & HN & HD & HF).
  pose proof (add_next_clean now k b e p) as HC. rewrite add_timeout in *.
  specialize (HC HT). unfold swept. cbn [fst snd]. rewrite add_timeout.
  apply Forall_forall. intros kv Hkv. pose proof (proj1 (Forall_forall _ _) HF kv Hkv) as H.
  cbn beta in H. lia.
Qed.

(* Right after any add, in any history of the domain, every pin still in the table expired at
   most one dialog timeout ago: pin_expire + timeout >= now. *)
Theorem C15_swept ts pre k b e :
  pins_domain ts (pre ++ [PAdd k b e]) = true ->
  swept (after ts (pre ++ [PAdd k b e])).
Proof.
  intros HD. pose proof HD as HD0. apply domain_split in HD. destruct HD as [Hts Hok].
  apply ok_app in Hok. destruct Hok as [Hpre Hadd].
  assert (Dpre : pins_domain ts pre = true) by (apply domain_split; split; assumption).
  pose proof (pinvT_after ts pre Dpre) as [HT HI].
  rewrite after_exec, exec_app, <- after_exec.
  destruct (after ts pre) as [now p]. cbn [fst snd] in *.
  cbn [pins_exec fold_left pins_step fst].
  apply swept_add; [exact HI|].
  cbn [forallb pin_op_ok] in Hadd.
  rewrite (lifetime_domain ts p e Hts) by (try exact HT; lia).
  rewrite HT. apply ns_max_ge.
Qed.

(* ------------------------------------------------------------------ one key through a history *)
(* steps that (re)bind or terminate key k *)
Definition touches (k : bytes) (o : pin_op) : bool :=
  match o with PAdd k' _ _ | PRemove k' => beq k k' | PGet _ | PAdvance _ => false end.
Definition adds (k : bytes) (o : pin_op) : bool :=
  match o with PAdd k' _ _ => beq k k' | _ => false end.

Definition nodup_tab (p : pins) : Prop := NoDup (map fst (p_tab p)).

Lemma touches_adds k ops : existsb (touches k) ops = false -> existsb (adds k) ops = false.
Proof.
  induction ops as [|o r IH]; cbn [existsb]; intros H; [reflexivity|].
  apply orb_false_iff in H. destruct H as [Ho Hr]. rewrite (IH Hr), orb_false_r.
  destruct o; cbn [touches adds] in *; try reflexivity. exact Ho.
Qed.

Lemma step_nodup now p o : nodup_tab p -> nodup_tab (snd (fst (pins_step (now, p) o))).
Proof.
  unfold nodup_tab. intros HD. destruct o as [k b e|k|k|dt]; cbn [pins_step].
  - cbn [fst snd]. unfold pins_add.
    destruct (Z.ltb (p_next_clean p) now); cbn [p_tab].
    + apply filter_keys_nodup. apply aset_keys_nodup. exact HD.
    + apply aset_keys_nodup. exact HD.
  - unfold pins_get. destruct (alookup k (p_tab p)) as [e|]; [|exact HD].
    destruct (Z.ltb now (pin_expire e)); cbn [fst snd p_tab]; [exact HD|].
    apply adel_keys_nodup. exact HD.
  - cbn [fst snd pins_remove p_tab]. apply adel_keys_nodup. exact HD.
  - exact HD.
Qed.

Lemma step_time_le now p o : now <= fst (fst (pins_step (now, p) o)).
Proof.
  destruct o as [k b e|k|k|dt]; cbn [pins_step fst]; try lia.
  destruct (pins_get now k p). cbn [fst]. lia.
Qed.

Lemma exec_time_le ops : forall now p, now <= fst (pins_exec (now, p) ops).
Proof.
  induction ops as [|o r IH]; intros now p; cbn [pins_exec fold_left fst]; [lia|].
  pose proof (step_time_le now p o) as H1.
  destruct (fst (pins_step (now, p) o)) as [now1 p1]. cbn [fst] in H1.
  specialize (IH now1 p1). unfold pins_exec in IH. lia.
Qed.

(* a step that does not touch k leaves k's entry alone, or drops it because it has expired *)
Lemma step_untouched k now p o : nodup_tab p -> touches k o = false ->
  let st1 := fst (pins_step (now, p) o) in
  alookup k (p_tab (snd st1)) = alookup k (p_tab p) \/
  (alookup k (p_tab (snd st1)) = None /\
   exists ent, alookup k (p_tab p) = Some ent /\ pin_expire ent <= fst st1).
Proof.
  unfold nodup_tab. intros HD Ht. destruct o as [k1 b e|k1|k1|dt]; cbn [pins_step touches] in *.
  - cbn [fst snd]. apply beq_neq in Ht. unfold pins_add.
    destruct (Z.ltb (p_next_clean p) now); cbn [p_tab].
    + rewrite alookup_clean by (apply aset_keys_nodup; exact HD).
      rewrite alookup_aset_other by exact Ht.
      destruct (alookup k (p_tab p)) as [ent|]; [|left; reflexivity].
      destruct (Z.ltb_spec (pin_expire ent) now) as [Hx|Hx]; [|left; reflexivity].
      right. split; [reflexivity|]. exists ent. split; [reflexivity|lia].
    + left. apply alookup_aset_other. exact Ht.
  - unfold pins_get. destruct (alookup k1 (p_tab p)) as [e1|] eqn:E1; [|left; reflexivity].
    destruct (Z.ltb_spec now (pin_expire e1)) as [Hx|Hx]; cbn [fst snd p_tab]; [left; reflexivity|].
    destruct (beq_spec k k1) as [->|NE].
    + right. split; [apply alookup_adel_same|]. exists e1. split; [exact E1|exact Hx].
    + left. apply alookup_adel_other. exact NE.
  - cbn [fst snd pins_remove p_tab]. left. apply alookup_adel_other. apply beq_neq. exact Ht.
  - left. reflexivity.
Qed.

(* an absent key stays absent until it is added *)
Lemma step_none k now p o : adds k o = false -> alookup k (p_tab p) = None ->
  alookup k (p_tab (snd (fst (pins_step (now, p) o)))) = None.
Proof.
  intros Ha HN. destruct o as [k1 b e|k1|k1|dt]; cbn [pins_step adds] in *.
  - cbn [fst snd]. apply beq_neq in Ha. unfold pins_add.
    destruct (Z.ltb (p_next_clean p) now); cbn [p_tab].
    + apply alookup_clean_none. rewrite alookup_aset_other by exact Ha. exact HN.
    + rewrite alookup_aset_other by exact Ha. exact HN.
  - unfold pins_get. destruct (alookup k1 (p_tab p)) as [e1|]; [|exact HN].
    destruct (Z.ltb now (pin_expire e1)); cbn [fst snd p_tab]; [exact HN|].
    destruct (beq_spec k k1) as [->|NE]; [apply alookup_adel_same|].
    rewrite alookup_adel_other by exact NE. exact HN.
  - cbn [fst snd pins_remove p_tab].
    destruct (beq_spec k k1) as [->|NE]; [apply alookup_adel_same|].
    rewrite alookup_adel_other by exact NE. exact HN.
  - exact HN.
Qed.

Lemma exec_none k ops : forall now p,
  existsb (adds k) ops = false -> alookup k (p_tab p) = None ->
  alookup k (p_tab (snd (pins_exec (now, p) ops))) = None.
Proof.
  induction ops as [|o r IH]; intros now p Ha HN; cbn [pins_exec fold_left]; [exact HN|].
  cbn [existsb] in Ha. apply orb_false_iff in Ha. destruct Ha as [Ho Hr].
  pose proof (step_none k now p o Ho HN) as H1.
  destruct (fst (pins_step (now, p) o)) as [now1 p1]. cbn [snd] in H1.
  apply IH; assumption.
Qed.

Lemma exec_untouched k ent ops : forall now p,
  nodup_tab p -> existsb (touches k) ops = false -> alookup k (p_tab p) = Some ent ->
  let st' := pins_exec (now, p) ops in
  alookup k (p_tab (snd st')) = Some ent \/
  (alookup k (p_tab (snd st')) = None /\ pin_expire ent <= fst st').
Proof.
  induction ops as [|o r IH]; intros now p HD Ht HS; cbn [pins_exec fold_left].
  - left. exact HS.
  - cbn [existsb] in Ht. apply orb_false_iff in Ht. destruct Ht as [Ho Hr].
    pose proof (step_untouched k now p o HD Ho) as H1.
    pose proof (step_nodup now p o HD) as HD1.
    destruct (fst (pins_step (now, p) o)) as [now1 p1]. cbn [fst snd] in H1, HD1.
    fold (pins_exec (now1, p1) r).
    destruct H1 as [H1|[H1 [ent' [H2 H3]]]].
    + apply IH; [exact HD1|exact Hr|]. rewrite H1. exact HS.
    + right. rewrite HS in H2. injection H2 as <-. split.
      * apply exec_none; [apply touches_adds; exact Hr|exact H1].
      * pose proof (exec_time_le r now1 p1). lia.
Qed.

(* what a look-up answers, by cases on the table *)
Lemma get_live now k p ent :
  alookup k (p_tab p) = Some ent -> now < pin_expire ent ->
  snd (pins_get now k p) = Some (pin_backend ent).
Proof.
  intros HS Hx. unfold pins_get. rewrite HS.
  destruct (Z.ltb_spec now (pin_expire ent)); [reflexivity|lia].
Qed.

Lemma get_expired now k p ent :
  alookup k (p_tab p) = Some ent -> pin_expire ent <= now -> snd (pins_get now k p) = None.
Proof.
  intros HS Hx. unfold pins_get. rewrite HS.
  destruct (Z.ltb_spec now (pin_expire ent)); [lia|reflexivity].
Qed.

Lemma get_absent now k p : alookup k (p_tab p) = None -> snd (pins_get now k p) = None.
Proof. intros HN. unfold pins_get. rewrite HN. reflexivity. Qed.

Lemma add_lookup now k b e p : nodup_tab p -> 0 <= pins_lifetime p e ->
  alookup k (p_tab (pins_add now k b e p)) =
  Some {| pin_backend := b; pin_expire := now + pins_lifetime p e |}.
Proof.
  unfold nodup_tab. intros HD HL. unfold pins_add.
  destruct (Z.ltb (p_next_clean p) now); cbn [p_tab].
  - rewrite alookup_clean by (apply aset_keys_nodup; exact HD).
    rewrite alookup_aset_same. cbn [pin_expire].
    destruct (Z.ltb_spec (now + pins_lifetime p e) now); [lia|reflexivity].
  - apply alookup_aset_same.
Qed.

(* the clock of the model after a history of the domain *)
Theorem C15_clock ts ops : pins_domain ts ops = true -> fst (after ts ops) = elapsed ops.
Proof.
  intros HD. apply domain_split in HD. destruct HD as [_ Hok].
  rewrite after_exec, exec_time by exact Hok. lia.
Qed.

(* After "pre; add k b e; mid" with mid neither re-adding nor terminating k: the clock shows
   t0 + elapsed mid, and k's entry is exactly the one the add made (expiring at
   t0 + max(timeout, e) seconds) unless that instant has been reached and it was dropped. *)
Lemma pinned_state ts pre k b e mid :
  pins_domain ts (pre ++ PAdd k b e :: mid) = true ->
  existsb (touches k) mid = false ->
  let st := after ts (pre ++ PAdd k b e :: mid) in
  let t0 := fst (after ts pre) in
  let ent := {| pin_backend := b; pin_expire := t0 + c15_ns (Z.max ts e) |} in
  fst st = t0 + elapsed mid /\
  (alookup k (p_tab (snd st)) = Some ent \/
   (alookup k (p_tab (snd st)) = None /\ pin_expire ent <= fst st)).
Proof.
  intros HD Hun. apply domain_split in HD. destruct HD as [Hts Hok].
  apply ok_app in Hok. destruct Hok as [Hpre Hrest].
  cbn [forallb] in Hrest. apply andb_true_iff in Hrest. destruct Hrest as [Hadd Hmid].
  assert (Dpre : pins_domain ts pre = true) by (apply domain_split; split; assumption).
  pose proof (pinvT_after ts pre Dpre) as [HT HI].
  cbv zeta. rewrite (after_exec ts (pre ++ _)), exec_app, <- after_exec.
  destruct (after ts pre) as [now p]. cbn [fst snd] in *.
  cbn [pins_exec fold_left pins_step fst]. fold (pins_exec (now, pins_add now k b e p) mid).
  cbn [pin_op_ok] in Hadd.
  assert (HL : pins_lifetime p e = c15_ns (Z.max ts e))
    by (apply lifetime_domain; [exact Hts|lia|exact HT]).
  assert (HL0 : 0 <= pins_lifetime p e).
  { rewrite HL. pose proof (ns_max_ge ts e). pose proof (ns_small ts Hts). lia. }
  destruct HI as (_ & _ & HND & _).
  pose proof (add_lookup now k b e p HND HL0) as HS. rewrite HL in HS.
  pose proof (step_nodup now p (PAdd k b e) HND) as HND1. cbn [pins_step fst snd] in HND1.
  split.
  - apply exec_time. exact Hmid.
  - apply (exec_untouched k _ mid now _ HND1 Hun HS).
Qed.

(* ------------------------------------------------------------------ C15_honoured / never_after *)
(* A pin made at time t0 with lifetime L = max(timeout, Expires) seconds is honoured by every
   look-up made while less than L has elapsed, whatever else happened in between (other keys
   added, looked up, terminated, sweeps run), provided k itself was not re-added or terminated. *)
Theorem C15_honoured ts pre k b e mid :
  pins_domain ts (pre ++ PAdd k b e :: mid) = true ->
  existsb (touches k) mid = false ->
  elapsed mid < c15_ns (Z.max ts e) ->
  let st := after ts (pre ++ PAdd k b e :: mid) in
  snd (pins_get (fst st) k (snd st)) = Some b.
Proof.
  intros HD Hun Hlt. destruct (pinned_state ts pre k b e mid HD Hun) as [Ht HS].
  cbv zeta in *. destruct HS as [HS|[_ HS]].
  - apply (get_live _ _ _ _ HS). cbn [pin_expire]. lia.
  - cbn [pin_expire] in HS. lia.
Qed.

(* ... and by no look-up made once L has elapsed. *)
Theorem C15_never_after ts pre k b e mid :
  pins_domain ts (pre ++ PAdd k b e :: mid) = true ->
  existsb (touches k) mid = false ->
  c15_ns (Z.max ts e) <= elapsed mid ->
  let st := after ts (pre ++ PAdd k b e :: mid) in
  snd (pins_get (fst st) k (snd st)) = None.
Proof.
  intros HD Hun Hge. destruct (pinned_state ts pre k b e mid HD Hun) as [Ht HS].
  cbv zeta in *. destruct HS as [HS|[HS _]].
  - apply (get_expired _ _ _ _ HS). cbn [pin_expire]. lia.
  - apply get_absent. exact HS.
Qed.

(* the lifetime is at least the configured timeout and at least the Expires value *)
Lemma C15_lifetime_ge ts e : c15_ns ts <= c15_ns (Z.max ts e) /\ c15_ns e <= c15_ns (Z.max ts e).
Proof. unfold c15_ns. lia. Qed.

(* ------------------------------------------------------------------ C15_removed *)
(* After a terminate, the key is not honoured until it is added again (any history, no domain
   hypothesis needed). *)
Theorem C15_removed ts pre k mid :
  existsb (adds k) mid = false ->
  let st := after ts (pre ++ PRemove k :: mid) in
  snd (pins_get (fst st) k (snd st)) = None.
Proof.
  intros Hun. cbv zeta. rewrite after_exec, exec_app.
  destruct (pins_exec (0, pins_new ts 0) pre) as [now p].
  cbn [pins_exec fold_left pins_step fst]. fold (pins_exec (now, pins_remove k p) mid).
  apply get_absent. apply exec_none; [exact Hun|].
  cbn [pins_remove p_tab]. apply alookup_adel_same.
Qed.

(* ------------------------------------------------------------------ model vs specification state *)
(* k's binding in the judge's specification state against k's entry in the model table: the
   entry is the binding (same backend, expiring at created + lifetime), or the binding has run
   out and the entry is gone (swept, or dropped by a look-up) *)
Definition rel1 (now : Z) (sb : option c15_binding) (me : option pin) : Prop :=
  match sb with
  | None => me = None
  | Some bd =>
      me = Some {| pin_backend := cb_backend bd;
                   pin_expire := cb_created bd + cb_lifetime bd |} \/
      (me = None /\ cb_created bd + cb_lifetime bd <= now)
  end.

Definition rel (now : Z) (p : pins) (bs : c15_bindings) : Prop :=
  forall k, rel1 now (alookup k bs) (alookup k (p_tab p)).

Definition INV (ts now : Z) (p : pins) (bs : c15_bindings) : Prop :=
  0 <= ts <= c15_max_seconds /\ pinvT ts now p /\ rel now p bs.

Lemma rel1_mono now now' sb me : now <= now' -> rel1 now sb me -> rel1 now' sb me.
Proof.
  intros Hle. destruct sb as [bd|]; cbn [rel1]; [|tauto].
  intros [H|[H1 H2]]; [left; exact H|right; split; [exact H1|lia]].
Qed.

Lemma rel1_clean now sb me : rel1 now sb me ->
  rel1 now sb (match me with
               | Some e => if Z.ltb (pin_expire e) now then None else Some e
               | None => None end).
Proof.
  destruct sb as [bd|]; cbn [rel1].
  - intros [H|[H1 H2]]; subst me.
    + cbn [pin_expire]. destruct (Z.ltb_spec (cb_created bd + cb_lifetime bd) now) as [Hx|Hx].
      * right. split; [reflexivity|lia].
      * left. reflexivity.
    + right. split; [reflexivity|exact H2].
  - intros ->. reflexivity.
Qed.

Lemma INV_init ts : 0 <= ts <= c15_max_seconds -> INV ts 0 (pins_new ts 0) [].
Proof.
  intros Hts. split; [exact Hts|]. split; [apply pinvT_new; exact Hts|].
  intros k. reflexivity.
Qed.

Lemma INV_step ts now p bs o : INV ts now p bs -> pin_op_ok o = true ->
  let st1 := fst (pins_step (now, p) o) in
  let sp1 := c15_next ts (now, bs) o in
  fst sp1 = fst st1 /\ INV ts (fst st1) (snd st1) (snd sp1).
Proof.
  intros (Hts & HP & HR) Hok. cbv zeta.
  pose proof (pinvT_step ts now p o Hts Hok HP) as HP1.
  destruct HP as [HT HI]. pose proof HI as (_ & _ & HND & _).
  destruct o as [k b e|k|k|dt]; cbn [pins_step c15_next pin_op_ok] in *.
  - cbn [fst snd] in *. split; [reflexivity|]. split; [exact Hts|]. split; [exact HP1|].
    assert (HL : pins_lifetime p e = c15_ns (Z.max ts e))
      by (apply lifetime_domain; [exact Hts|lia|exact HT]).
    intros k0. destruct (beq_spec k0 k) as [->|NE].
    + rewrite alookup_aset_same. cbn [rel1 cb_backend cb_created cb_lifetime]. left.
      rewrite add_lookup; [rewrite HL; reflexivity|exact HND|].
      rewrite HL. pose proof (ns_max_ge ts e). pose proof (ns_small ts Hts). lia.
    + rewrite alookup_aset_other by exact NE. unfold pins_add.
      destruct (Z.ltb (p_next_clean p) now); cbn [p_tab].
      * rewrite alookup_clean by (apply aset_keys_nodup; exact HND).
        rewrite alookup_aset_other by exact NE. apply rel1_clean. apply HR.
      * rewrite alookup_aset_other by exact NE. apply HR.
  - assert (HR' : rel now (fst (pins_get now k p)) bs).
    { unfold pins_get. destruct (alookup k (p_tab p)) as [e1|] eqn:E1; [|exact HR].
      destruct (Z.ltb_spec now (pin_expire e1)) as [Hx|Hx]; [exact HR|].
      cbn [fst]. intros k0. cbn [p_tab]. destruct (beq_spec k0 k) as [->|NE].
      - rewrite alookup_adel_same. specialize (HR k). rewrite E1 in HR.
        destruct (alookup k bs) as [bd|]; cbn [rel1] in *; [|discriminate].
        destruct HR as [HR|[HR _]]; [|discriminate].
        injection HR as ->. cbn [pin_expire] in Hx. right. split; [reflexivity|exact Hx].
      - rewrite alookup_adel_other by exact NE. apply HR. }
    destruct (pins_get now k p) as [p' r]. cbn [fst snd] in *.
    split; [reflexivity|]. split; [exact Hts|]. split; [exact HP1|exact HR'].
  - cbn [fst snd] in *. split; [reflexivity|]. split; [exact Hts|]. split; [exact HP1|].
    intros k0. cbn [pins_remove p_tab]. destruct (beq_spec k0 k) as [->|NE].
    + rewrite !alookup_adel_same. reflexivity.
    + rewrite !alookup_adel_other by exact NE. apply HR.
  - cbn [fst snd] in *. split; [lia|]. split; [exact Hts|]. split; [exact HP1|].
    intros k0. apply (rel1_mono now); [lia|apply HR].
Qed.

Lemma INV_exec ts ops : forall now p bs, INV ts now p bs -> forallb pin_op_ok ops = true ->
  let st := pins_exec (now, p) ops in
  let sp := fold_left (c15_next ts) ops (now, bs) in
  fst sp = fst st /\ INV ts (fst st) (snd st) (snd sp).
Proof.
  induction ops as [|o r IH]; intros now p bs HI Hok; cbn [pins_exec fold_left].
  - split; [reflexivity|exact HI].
  - cbn [forallb] in Hok. apply andb_true_iff in Hok. destruct Hok as [Ho Hr].
    pose proof (INV_step ts now p bs o HI Ho) as [H1 H2].
    destruct (fst (pins_step (now, p) o)) as [now1 p1].
    destruct (c15_next ts (now, bs) o) as [t1 bs1]. cbn [fst snd] in H1, H2. subst t1.
    apply (IH now1 p1 bs1 H2 Hr).
Qed.

(* what the model answers is what C15 prescribes *)
Lemma get_expected now k p bs : rel now p bs -> snd (pins_get now k p) = c15_expected now k bs.
Proof.
  intros HR. specialize (HR k). unfold c15_expected.
  destruct (alookup k bs) as [bd|]; cbn [rel1] in HR.
  - destruct (Z.ltb_spec now (cb_created bd + cb_lifetime bd)) as [Hx|Hx];
      destruct HR as [HR|[HR HR2]].
    + rewrite (get_live _ _ _ _ HR) by (cbn [pin_expire]; lia). reflexivity.
    + lia.
    + apply (get_expired _ _ _ _ HR). cbn [pin_expire]. lia.
    + apply get_absent. exact HR.
  - apply get_absent. exact HR.
Qed.

(* sizes: the table never holds more pins than the judge counts *)
Lemma size_le_filter f now p bs : nodup_tab p -> rel now p bs ->
  (forall k bd, In (k, {| pin_backend := cb_backend bd;
                          pin_expire := cb_created bd + cb_lifetime bd |}) (p_tab p) ->
                f (k, bd) = true) ->
  (List.length (p_tab p) <= List.length (filter f bs))%nat.
Proof.
  intros HND HR Hf.
  rewrite <- (map_length fst (p_tab p)), <- (map_length fst (filter f bs)).
  apply NoDup_incl_length; [exact HND|].
  intros k Hk. apply in_map_iff in Hk. destruct Hk as [[k' ent] [E Hin]]. cbn [fst] in E. subst k'.
  pose proof (in_alookup _ _ _ HND Hin) as HS.
  specialize (HR k). rewrite HS in HR.
  destruct (alookup k bs) as [bd|] eqn:Eb; cbn [rel1] in HR; [|discriminate].
  destruct HR as [HR|[HR _]]; [|discriminate]. injection HR as ->.
  change k with (fst (k, bd)). apply in_map. apply filter_In. split.
  - apply alookup_in. exact Eb.
  - apply Hf. exact Hin.
Qed.

Lemma size_le now p bs : nodup_tab p -> rel now p bs ->
  (List.length (p_tab p) <= List.length bs)%nat.
Proof.
  intros HND HR. rewrite <- (filter_all bs) at 1.
  apply (size_le_filter (fun _ => true) now); [exact HND|exact HR|reflexivity].
Qed.

Lemma size_le_recent ts t p bs : nodup_tab p -> rel t p bs -> p_timeout p = c15_ns ts ->
  swept (t, p) -> (List.length (p_tab p) <= List.length (filter (c15_recent ts t) bs))%nat.
Proof.
  intros HND HR HT HS. apply (size_le_filter _ t); [exact HND|exact HR|].
  intros k bd Hin. unfold swept in HS. cbn [fst snd] in HS.
  pose proof (proj1 (Forall_forall _ _) HS _ Hin) as H. cbn [snd pin_expire] in H.
  unfold c15_recent. cbn [snd]. rewrite HT in H. lia.
Qed.

Lemma opt_eqb_refl x : c15_opt_eqb x x = true.
Proof. destruct x as [b|]; cbn; [apply beq_refl|reflexivity]. Qed.
Lemma out_eqb_refl r : c15_out_eqb r r = true.
Proof. destruct r as [|x]; cbn; [reflexivity|apply opt_eqb_refl]. Qed.

(* one step of the model is accepted by one step of the judge *)
Lemma step_judged ts now p bs o : INV ts now p bs -> pin_op_ok o = true ->
  c15_out_ok ts (now, bs) o
    (snd (pins_step (now, p) o), List.length (p_tab (snd (fst (pins_step (now, p) o))))) = true.
Proof.
  intros HI Hok. pose proof (INV_step ts now p bs o HI Hok) as [H1 (Hts & [HT1 HP1] & HR1)].
  destruct HI as (_ & [HT HP] & HR).
  assert (HND1 : nodup_tab (snd (fst (pins_step (now, p) o)))) by apply HP1.
  pose proof (size_le _ _ _ HND1 HR1) as Hsz.
  unfold c15_out_ok. apply andb_true_iff. split; [apply Nat.leb_le; exact Hsz|].
  destruct o as [k b e|k|k|dt]; cbn [pins_step snd fst] in *; try reflexivity.
  - cbn [c15_out_eqb andb]. apply Nat.leb_le.
    apply size_le_recent; [exact HND1|exact HR1|exact HT1|].
    apply swept_add; [exact HP|].
    cbn [pin_op_ok] in Hok.
    rewrite (lifetime_domain ts p e Hts) by (try exact HT; lia).
    rewrite HT. apply ns_max_ge.
  - rewrite <- (get_expected now k p bs HR).
    destruct (pins_get now k p) as [p' r]. cbn [snd]. apply out_eqb_refl.
Qed.

Lemma judged_gen ts ops : forall now p bs, INV ts now p bs -> forallb pin_op_ok ops = true ->
  c15_check ts (now, bs) ops (snd (pins_run (now, p) ops)) = true.
Proof.
  induction ops as [|o r IH]; intros now p bs HI Hok; cbn [pins_run].
  - reflexivity.
  - cbn [forallb] in Hok. apply andb_true_iff in Hok. destruct Hok as [Ho Hr].
    pose proof (step_judged ts now p bs o HI Ho) as Hj.
    pose proof (INV_step ts now p bs o HI Ho) as [H1 H2].
    destruct (pins_step (now, p) o) as [[now1 p1] x] eqn:Es.
    specialize (IH now1 p1).
    destruct (pins_run (now1, p1) r) as [st2 xs] eqn:Er.
    cbn [fst snd] in *. cbn [c15_check]. apply andb_true_iff. split; [exact Hj|].
    destruct (c15_next ts (now, bs) o) as [t1 bs1]. cbn [fst snd] in H1, H2. subst t1.
    apply IH; assumption.
Qed.

(* ------------------------------------------------------------------ C15_judged *)
(* Every observation the model produces on a history of the domain is accepted by the judge. *)
Theorem C15_judged : forall timeout_s ops, pins_domain timeout_s ops = true ->
  judge_C15 timeout_s ops (snd (pins_run (0, pins_new timeout_s 0) ops)) = true.
Proof.
  intros ts ops HD. apply domain_split in HD. destruct HD as [Hts Hok].
  unfold judge_C15. apply judged_gen; [apply INV_init; exact Hts|exact Hok].
Qed.

(* ------------------------------------------------------------------ C15_bounded *)
Lemma INV_after ts ops : pins_domain ts ops = true ->
  fst (c15_after ts ops) = fst (after ts ops) /\
  INV ts (fst (after ts ops)) (snd (after ts ops)) (snd (c15_after ts ops)).
Proof.
  intros HD. apply domain_split in HD. destruct HD as [Hts Hok].
  rewrite after_exec. unfold c15_after.
  apply (INV_exec ts ops 0 (pins_new ts 0) [] (INV_init ts Hts) Hok).
Qed.

(* The table never holds more pins than there are keys bound and not terminated ... *)
Theorem C15_size_le ts ops : pins_domain ts ops = true ->
  (List.length (p_tab (snd (after ts ops))) <= List.length (snd (c15_after ts ops)))%nat.
Proof.
  intros HD. destruct (INV_after ts ops HD) as [_ (_ & [_ HP] & HR)].
  apply (size_le (fst (after ts ops))); [apply HP|exact HR].
Qed.

(* ... and right after an add (at time t) no more than there are keys whose current binding
   had not been expired for more than one dialog timeout: created + lifetime + timeout >= t.
   Bindings whose lifetime ended earlier have been purged, whatever their Expires was. *)
Theorem C15_bounded ts pre k b e :
  let ops := pre ++ [PAdd k b e] in
  pins_domain ts ops = true ->
  let t := fst (after ts ops) in
  fst (c15_after ts ops) = t /\
  (List.length (p_tab (snd (after ts ops))) <=
   List.length (filter (c15_recent ts t) (snd (c15_after ts ops))))%nat.
Proof.
  cbv zeta. intros HD. destruct (INV_after ts _ HD) as [Ht (_ & [HT HP] & HR)].
  split; [exact Ht|].
  pose proof (C15_swept ts pre k b e HD) as HS.
  destruct (after ts (pre ++ [PAdd k b e])) as [t p]. cbn [fst snd] in *.
  apply size_le_recent; [apply HP|exact HR|exact HT|exact HS].
Qed.

(* ------------------------------------------------------------------ C15_legacy_refuted *)
(* The pre-fix AddBackend (pins_add_legacy: next sweep = expiry of the entry just added).
   One add carrying a huge Expires pushes the next sweep decades away; pins made afterwards
   are never purged. *)
Definition legacy_step (st : Z * pins) (o : pin_op) : (Z * pins) * pin_out :=
  match o with
  | PAdd k b e => ((fst st, pins_add_legacy (fst st) k b e (snd st)), PNone)
  | _ => pins_step st o
  end.

Fixpoint legacy_run (st : Z * pins) (ops : list pin_op) : (Z * pins) * list (pin_out * nat) :=
  match ops with
  | [] => (st, [])
  | o :: r => let '(st1, x) := legacy_step st o in
              let '(st2, xs) := legacy_run st1 r in
              (st2, (x, List.length (p_tab (snd st1))) :: xs)
  end.

Definition legacy_after (ts : Z) (ops : list pin_op) : Z * pins :=
  fst (legacy_run (0, pins_new ts 0) ops).

Definition swept_b (st : Z * pins) : bool :=
  forallb (fun kv => Z.leb (fst st) (pin_expire (snd kv) + p_timeout (snd st))) (p_tab (snd st)).

Lemma swept_b_spec st : swept st <-> swept_b st = true.
Proof.
  unfold swept, swept_b. rewrite forallb_forall, Forall_forall.
  split; intros H x Hx; specialize (H x Hx); lia.
Qed.

(* timeout 10 s.  t = 11 s: dialog "a" pinned with Expires 2^31-1, dialog "b" pinned (lifetime
   10 s, over at t = 21 s).  100 s of silence.  t = 111 s: dialog "c" pinned. *)
Definition legacy_pre : list pin_op :=
  [ PAdvance (c15_ns 11); PAdd (s2b "a") (s2b "B1") 2147483647; PAdd (s2b "b") (s2b "B2") 0;
    PAdvance (c15_ns 100) ].

(* With the legacy code "b", expired for 90 s = nine timeouts, is still in the table right
   after the add: the swept property (C15_swept) fails, and the judge rejects the run. *)
Theorem C15_legacy_refuted :
  exists ts pre k b e,
    pins_domain ts (pre ++ [PAdd k b e]) = true /\
    ~ swept (legacy_after ts (pre ++ [PAdd k b e])) /\
    judge_C15 ts (pre ++ [PAdd k b e])
              (snd (legacy_run (0, pins_new ts 0) (pre ++ [PAdd k b e]))) = false.
Proof.
  exists 10, legacy_pre, (s2b "c"), (s2b "B3"), 0.
  split; [vm_compute; reflexivity|]. split.
  - intros H. apply swept_b_spec in H. vm_compute in H. discriminate.
  - vm_compute. reflexivity.
Qed.

(* the same history under the fixed code: swept (instance of C15_swept), "b" is gone *)
Example C15_fixed_same_history :
  swept (after 10 (legacy_pre ++ [PAdd (s2b "c") (s2b "B3") 0])) /\
  map fst (p_tab (snd (after 10 (legacy_pre ++ [PAdd (s2b "c") (s2b "B3") 0]))))
    = [s2b "a"; s2b "c"] /\
  map fst (p_tab (snd (legacy_after 10 (legacy_pre ++ [PAdd (s2b "c") (s2b "B3") 0]))))
    = [s2b "a"; s2b "b"; s2b "c"].
Proof.
  split; [apply C15_swept; vm_compute; reflexivity|].
  split; vm_compute; reflexivity.
Qed.

(* ------------------------------------------------------------------ examples (non-vacuity) *)
(* timeout 30 s; dialog "d1" pinned to B1 by a response with Expires 3600; meanwhile other
   dialogs come and go and a sweep runs (the add of "y" at t = 100 s > next_clean = 30 s). *)
Definition ex_pre : list pin_op := [ PAdd (s2b "x") (s2b "B0") 0; PAdvance (c15_ns 5) ].
Definition ex_mid (last : Z) : list pin_op :=
  [ PAdvance (c15_ns 95); PAdd (s2b "y") (s2b "B2") 0; PGet (s2b "d1"); PRemove (s2b "x");
    PAdvance last ].

Example C15_honoured_example :
  let ops := ex_pre ++ PAdd (s2b "d1") (s2b "B1") 3600 :: ex_mid (c15_ns 3505 - 1) in
  pins_domain 30 ops = true /\
  existsb (touches (s2b "d1")) (ex_mid (c15_ns 3505 - 1)) = false /\
  elapsed (ex_mid (c15_ns 3505 - 1)) = c15_ns 3600 - 1 /\
  snd (pins_get (fst (after 30 ops)) (s2b "d1") (snd (after 30 ops))) = Some (s2b "B1").
Proof.
  cbv zeta. split; [vm_compute; reflexivity|]. split; [vm_compute; reflexivity|].
  split; [vm_compute; reflexivity|].
  apply C15_honoured; vm_compute; reflexivity.
Qed.

Example C15_never_after_example :
  let ops := ex_pre ++ PAdd (s2b "d1") (s2b "B1") 3600 :: ex_mid (c15_ns 3505) in
  pins_domain 30 ops = true /\
  existsb (touches (s2b "d1")) (ex_mid (c15_ns 3505)) = false /\
  elapsed (ex_mid (c15_ns 3505)) = c15_ns 3600 /\
  snd (pins_get (fst (after 30 ops)) (s2b "d1") (snd (after 30 ops))) = None.
Proof.
  cbv zeta. split; [vm_compute; reflexivity|]. split; [vm_compute; reflexivity|].
  split; [vm_compute; reflexivity|].
  apply C15_never_after; [vm_compute; reflexivity|vm_compute; reflexivity|].
  vm_compute. discriminate.
Qed.

(* with Expires below the timeout the timeout governs: honoured at 30 s - 1 ns, not at 30 s *)
Example C15_timeout_governs :
  snd (pins_run (0, pins_new 30 0)
         [PAdd (s2b "d") (s2b "B") 5; PAdvance (c15_ns 30 - 1); PGet (s2b "d");
          PAdvance 1; PGet (s2b "d"); PGet (s2b "d")])
  = [(PNone, 1%nat); (PNone, 1%nat); (PGot (Some (s2b "B")), 1%nat);
     (PNone, 1%nat); (PGot None, 0%nat); (PGot None, 0%nat)].
Proof. vm_compute. reflexivity. Qed.

Example C15_removed_example :
  let ops := [PAdd (s2b "d") (s2b "B") 100] ++ PRemove (s2b "d")
             :: [PAdvance 5; PAdd (s2b "other") (s2b "B") 0] in
  existsb (adds (s2b "d")) [PAdvance 5; PAdd (s2b "other") (s2b "B") 0] = false /\
  snd (pins_get (fst (after 30 ops)) (s2b "d") (snd (after 30 ops))) = None.
Proof. cbv zeta. split; [vm_compute; reflexivity|]. apply C15_removed. vm_compute. reflexivity. Qed.

(* C15_swept / C15_bounded: 3 short-lived pins, a long pause, one more add: only the long-lived
   pin and the new one remain, though three further keys are still "bound" in the spec state *)
Definition ex_burst : list pin_op :=
  [ PAdd (s2b "long") (s2b "B") 2147483647;
    PAdd (s2b "s1") (s2b "B") 0; PAdd (s2b "s2") (s2b "B") 40; PAdd (s2b "s3") (s2b "B") 0;
    PAdvance (c15_ns 71) ].

Example C15_swept_example :
  let ops := ex_burst ++ [PAdd (s2b "new") (s2b "B") 0] in
  pins_domain 30 ops = true /\
  List.length (snd (c15_after 30 ops)) = 5%nat /\
  List.length (filter (c15_recent 30 (fst (after 30 ops))) (snd (c15_after 30 ops))) = 2%nat /\
  map fst (p_tab (snd (after 30 ops))) = [s2b "long"; s2b "new"].
Proof. cbv zeta. repeat split; vm_compute; reflexivity. Qed.

(* C15_judged, and the judge is not trivially true: it rejects a pin honoured at its expiry
   instant, a pin not honoured one nanosecond earlier, an answer after a terminate, a wrong
   backend, a table that kept a long-expired pin across an add, and a truncated observation;
   for an expired pin that was looked up it accepts both "forgotten" and "still counted". *)
Definition ex_ops : list pin_op :=
  [ PAdd (s2b "d") (s2b "B") 0; PAdvance (c15_ns 10 - 1); PGet (s2b "d"); PAdvance 1;
    PGet (s2b "d"); PAdd (s2b "d") (s2b "C") 20; PRemove (s2b "d"); PGet (s2b "d");
    PAdd (s2b "e") (s2b "B") 0; PAdvance (c15_ns 21); PAdd (s2b "f") (s2b "B") 0 ].
Definition ex_obs (r3 r5 r8 : option bytes) (n5 n11 : nat) : list (pin_out * nat) :=
  [ (PNone, 1%nat); (PNone, 1%nat); (PGot r3, 1%nat); (PNone, 1%nat); (PGot r5, n5);
    (PNone, 1%nat); (PNone, 0%nat); (PGot r8, 0%nat); (PNone, 1%nat); (PNone, 1%nat);
    (PNone, n11) ].

Example C15_judged_example :
  pins_domain 10 ex_ops = true /\
  snd (pins_run (0, pins_new 10 0) ex_ops) = ex_obs (Some (s2b "B")) None None 0 1 /\
  judge_C15 10 ex_ops (ex_obs (Some (s2b "B")) None None 0 1) = true /\
  judge_C15 10 ex_ops (ex_obs (Some (s2b "B")) None None 1 1) = true /\   (* no lazy delete *)
  judge_C15 10 ex_ops (ex_obs (Some (s2b "B")) (Some (s2b "B")) None 1 1) = false /\
  judge_C15 10 ex_ops (ex_obs None None None 0 1) = false /\
  judge_C15 10 ex_ops (ex_obs (Some (s2b "C")) None None 0 1) = false /\
  judge_C15 10 ex_ops (ex_obs (Some (s2b "B")) None (Some (s2b "C")) 0 1) = false /\
  judge_C15 10 ex_ops (ex_obs (Some (s2b "B")) None None 0 2) = false /\
  judge_C15 10 ex_ops (removelast (ex_obs (Some (s2b "B")) None None 0 1)) = false.
Proof. repeat split; vm_compute; reflexivity. Qed.

Print Assumptions C15_judged.
Print Assumptions C15_honoured.
Print Assumptions C15_never_after.
Print Assumptions C15_removed.
Print Assumptions C15_swept.
Print Assumptions C15_size_le.
Print Assumptions C15_bounded.
Print Assumptions C15_clock.
Print Assumptions C15_legacy_refuted.
Print Assumptions C15_judged_example.
