(* proofs/C15.v — property C15 (dialog pins: honoured for their lifetime, never after,
   dissolved on termination, expired pins purged so the table stays bounded) proved of the
   model Pins.v for ALL histories, and the executable judge SpecC15.judge_C15 proved to accept
   every observation the model produces.  No axioms, no admits. *)
From Coq Require Import List Ascii String ZArith Bool Lia.
From Coq Require Import ZifyBool ZifyNat.
From Model Require Import Bytes BytesLemmas Pins SpecC15.
Import ListNotations.
Open Scope Z_scope.

(* ------------------------------------------------------------------ association lists *)
Lemma adel_in {V} k x (m : list (bytes * V)) : In x (adel k m) -> In x m.
Proof.
  induction m as [|[k' v'] r IH]; cbn; [tauto|].
  destruct (beq k k'); cbn; intros H.
  - right. apply IH. exact H.
  - destruct H as [H|H]; [left; exact H|right; apply IH; exact H].
Qed.

Lemma adel_keys_in {V} k x (m : list (bytes * V)) :
  In x (map fst (adel k m)) -> In x (map fst m).
Proof.
  intros H. apply in_map_iff in H. destruct H as [kv [E H]]. subst x.
  apply in_map. apply (adel_in k). exact H.
Qed.

Lemma adel_keys_nodup {V} k (m : list (bytes * V)) :
  NoDup (map fst m) -> NoDup (map fst (adel k m)).
Proof.
  induction m as [|[k' v'] r IH]; cbn; intros ND; [constructor|].
  inversion ND as [|k0 l0 Hnin Hnd]; subst.
  destruct (beq k k'); cbn.
  - apply IH. exact Hnd.
  - constructor; [|apply IH; exact Hnd].
    intros H. apply Hnin. apply (adel_keys_in k). exact H.
Qed.

Lemma filter_keys_in {V} f x (m : list (bytes * V)) :
  In x (map fst (filter f m)) -> In x (map fst m).
Proof.
  intros H. apply in_map_iff in H. destruct H as [kv [E H]]. subst x.
  apply in_map. apply filter_In in H. apply H.
Qed.

Lemma filter_keys_nodup {V} f (m : list (bytes * V)) :
  NoDup (map fst m) -> NoDup (map fst (filter f m)).
Proof.
  induction m as [|[k' v'] r IH]; cbn; intros ND; [constructor|].
  inversion ND as [|k0 l0 Hnin Hnd]; subst.
  destruct (f (k', v')); cbn.
  - constructor; [|apply IH; exact Hnd].
    intros H. apply Hnin. apply (filter_keys_in f). exact H.
  - apply IH. exact Hnd.
Qed.

Lemma Forall_aset {V} (Q : V -> Prop) k v (m : list (bytes * V)) :
  Forall (fun kv => Q (snd kv)) m -> Q v -> Forall (fun kv => Q (snd kv)) (aset k v m).
Proof.
  intros HF Hv. induction m as [|[k' v'] r IH]; cbn.
  - constructor; [exact Hv|constructor].
  - inversion HF as [|x l Hx Hl]; subst.
    destruct (beq k k'); constructor; try assumption.
    apply IH. exact Hl.
Qed.

Lemma Forall_adel {V} (P : bytes * V -> Prop) k (m : list (bytes * V)) :
  Forall P m -> Forall P (adel k m).
Proof.
  intros HF. apply Forall_forall. intros x Hx.
  apply (proj1 (Forall_forall _ _) HF). apply (adel_in k). exact Hx.
Qed.

Lemma Forall_filter {A} (P : A -> Prop) f (m : list A) : Forall P m -> Forall P (filter f m).
Proof.
  intros HF. apply Forall_forall. intros x Hx.
  apply (proj1 (Forall_forall _ _) HF). apply filter_In in Hx. apply Hx.
Qed.

Lemma filter_all {A} (m : list A) : filter (fun _ => true) m = m.
Proof. induction m as [|x m IH]; cbn; [reflexivity|]. rewrite IH. reflexivity. Qed.

(* the sweep, seen through look-ups *)
Lemma alookup_clean now k tab : NoDup (map fst tab) ->
  alookup k (pins_clean now tab) =
  match alookup k tab with
  | Some e => if Z.ltb (pin_expire e) now then None else Some e
  | None => None
  end.
Proof.
  unfold pins_clean.
  induction tab as [|[k' v'] r IH]; cbn [filter alookup map fst snd]; intros ND; [reflexivity|].
  inversion ND as [|k0 l0 Hnin Hnd]; subst.
  destruct (beq k k') eqn:E.
  - apply beq_eq in E. subst k'.
    destruct (Z.ltb (pin_expire v') now); cbn [negb alookup].
    + apply alookup_none. intros H. apply Hnin. apply filter_keys_in in H. exact H.
    + rewrite beq_refl. reflexivity.
  - destruct (Z.ltb (pin_expire v') now); cbn [negb alookup].
    + apply IH. exact Hnd.
    + rewrite E. apply IH. exact Hnd.
Qed.

Lemma alookup_clean_none now k tab :
  alookup k tab = None -> alookup k (pins_clean now tab) = None.
Proof.
  intros H. apply alookup_none. apply alookup_none in H.
  intros H1. apply H. unfold pins_clean in H1. apply filter_keys_in in H1. exact H1.
Qed.

(* ------------------------------------------------------------------ arithmetic of lifetimes *)
Lemma wrap64_small z : 0 <= z < two63 -> wrap64 z = z.
Proof.
  intros H. unfold wrap64. rewrite Z.mod_small; [lia|]. unfold two63 in *. lia.
Qed.

Lemma second_ns s : s * second = c15_ns s.
Proof. reflexivity. Qed.

Lemma ns_small s : 0 <= s <= c15_max_seconds -> 0 <= c15_ns s < two63.
Proof. unfold c15_max_seconds, c15_ns, two63. lia. Qed.

Lemma new_timeout ts now : 0 <= ts <= c15_max_seconds -> p_timeout (pins_new ts now) = c15_ns ts.
Proof.
  intros H. unfold pins_new. cbn [p_timeout]. rewrite second_ns.
  apply wrap64_small. apply ns_small. exact H.
Qed.

(* in the domain of C15 no product wraps and the lifetime is max(timeout, Expires) *)
Lemma lifetime_domain ts p e :
  0 <= ts <= c15_max_seconds -> 0 <= e <= c15_max_seconds -> p_timeout p = c15_ns ts ->
  pins_lifetime p e = c15_ns (Z.max ts e).
Proof.
  intros Hts He HT. unfold pins_lifetime. rewrite HT, second_ns.
  rewrite (wrap64_small (c15_ns e)) by (apply ns_small; exact He).
  unfold c15_ns. destruct (Z.ltb_spec (ts * 1000000000) (e * 1000000000)) as [H|H]; lia.
Qed.

Lemma ns_max_ge ts e : c15_ns ts <= c15_ns (Z.max ts e).
Proof. unfold c15_ns. lia. Qed.

(* ------------------------------------------------------------------ histories as folds *)
Definition pins_exec (st : Z * pins) (ops : list pin_op) : Z * pins :=
  fold_left (fun s o => fst (pins_step s o)) ops st.

Lemma run_exec ops : forall st, fst (pins_run st ops) = pins_exec st ops.
Proof.
  induction ops as [|o r IH]; intros st; cbn [pins_run pins_exec fold_left]; [reflexivity|].
  destruct (pins_step st o) as [st1 x] eqn:Es.
  specialize (IH st1). destruct (pins_run st1 r) as [st2 xs] eqn:Er.
  cbn [fst] in *. exact IH.
Qed.

Lemma exec_app st a b : pins_exec st (a ++ b) = pins_exec (pins_exec st a) b.
Proof. unfold pins_exec. apply fold_left_app. Qed.

(* the state reached by a history from the initial state *)
Definition after (ts : Z) (ops : list pin_op) : Z * pins :=
  fst (pins_run (0, pins_new ts 0) ops).

Lemma after_exec ts ops : after ts ops = pins_exec (0, pins_new ts 0) ops.
Proof. apply run_exec. Qed.

Lemma domain_split ts ops :
  pins_domain ts ops = true <-> 0 <= ts <= c15_max_seconds /\ forallb pin_op_ok ops = true.
Proof. unfold pins_domain. rewrite !andb_true_iff, !Z.leb_le. tauto. Qed.

Lemma ok_app a b :
  forallb pin_op_ok (a ++ b) = true <-> forallb pin_op_ok a = true /\ forallb pin_op_ok b = true.
Proof. rewrite forallb_app, andb_true_iff. tauto. Qed.

(* time that passes during a history *)
Definition elapsed (ops : list pin_op) : Z :=
  fold_right (fun o acc => match o with PAdvance dt => dt + acc | _ => acc end) 0 ops.

Lemma step_time now p o : pin_op_ok o = true ->
  fst (fst (pins_step (now, p) o)) = now + match o with PAdvance dt => dt | _ => 0 end.
Proof.
  intros Hok. destruct o as [k b e|k|k|dt]; cbn [pins_step fst]; try lia.
  - destruct (pins_get now k p). cbn. lia.
  - cbn [pin_op_ok] in Hok. lia.
Qed.

Lemma exec_time ops : forall now p, forallb pin_op_ok ops = true ->
  fst (pins_exec (now, p) ops) = now + elapsed ops.
Proof.
  induction ops as [|o r IH]; intros now p Hok; cbn [pins_exec fold_left elapsed fold_right].
  - cbn [fst]. lia.
  - cbn [forallb] in Hok. apply andb_true_iff in Hok. destruct Hok as [Ho Hr].
    pose proof (step_time now p o Ho) as Ht.
    destruct (fst (pins_step (now, p) o)) as [now1 p1]. cbn [fst] in Ht.
    fold (pins_exec (now1, p1) r). rewrite IH by exact Hr. fold (elapsed r).
    destruct o; lia.
Qed.

Lemma elapsed_nonneg ops : forallb pin_op_ok ops = true -> 0 <= elapsed ops.
Proof.
  induction ops as [|o r IH]; cbn [elapsed fold_right forallb]; intros H; [lia|].
  apply andb_true_iff in H. destruct H as [Ho Hr]. specialize (IH Hr). fold (elapsed r).
  destruct o; cbn [pin_op_ok] in Ho; lia.
Qed.

(* ------------------------------------------------------------------ model invariant *)
(* the next sweep is never further away than one timeout, and nothing in the table expired
   before the instant "one timeout before the next sweep" *)
Definition pinv (now : Z) (p : pins) : Prop :=
  0 <= p_timeout p /\
  p_next_clean p <= now + p_timeout p /\
  NoDup (map fst (p_tab p)) /\
  Forall (fun kv => p_next_clean p - p_timeout p <= pin_expire (snd kv)) (p_tab p).

Lemma pinv_add now k b e p :
  pinv now p -> p_timeout p <= pins_lifetime p e -> pinv now (pins_add now k b e p).
Proof.
  intros (HT & HN & HD & HF) HL. unfold pins_add.
  set (ent := {| pin_backend := b; pin_expire := now + pins_lifetime p e |}).
  assert (HD' : NoDup (map fst (aset k ent (p_tab p)))) by (apply aset_keys_nodup; exact HD).
  destruct (Z.ltb_spec (p_next_clean p) now) as [Hc|Hc]; unfold pinv;
    cbn [p_timeout p_tab p_next_clean].
  - split; [lia|]. split; [lia|]. split.
    + apply filter_keys_nodup. exact HD'.
    + unfold pins_clean. apply Forall_forall. intros kv Hkv.
      apply filter_In in Hkv. destruct Hkv as [_ Hkv]. lia.
  - split; [lia|]. split; [lia|]. split; [exact HD'|].
    apply (Forall_aset (fun e0 => p_next_clean p - p_timeout p <= pin_expire e0)); [exact HF|].
    unfold ent. cbn [pin_expire]. lia.
Qed.

Lemma pinv_get now k p : pinv now p -> pinv now (fst (pins_get now k p)).
Proof.
  intros (HT & HN & HD & HF). unfold pins_get.
  destruct (alookup k (p_tab p)) as [e|]; [|cbn [fst]; repeat split; assumption].
  destruct (Z.ltb now (pin_expire e)); cbn [fst]; [repeat split; assumption|].
  unfold pinv. cbn [p_timeout p_tab p_next_clean].
  split; [lia|]. split; [lia|]. split; [apply adel_keys_nodup; exact HD|apply Forall_adel; exact HF].
Qed.

Lemma pinv_remove now k p : pinv now p -> pinv now (pins_remove k p).
Proof.
  intros (HT & HN & HD & HF). unfold pinv, pins_remove. cbn [p_timeout p_tab p_next_clean].
  split; [lia|]. split; [lia|]. split; [apply adel_keys_nodup; exact HD|apply Forall_adel; exact HF].
Qed.

Lemma pinv_mono now now' p : now <= now' -> pinv now p -> pinv now' p.
Proof.
  intros Hle (HT & HN & HD & HF). unfold pinv.
  split; [lia|]. split; [lia|]. split; assumption.
Qed.

(* the invariant together with "the configured timeout is timeout_s seconds" *)
Definition pinvT (ts now : Z) (p : pins) : Prop := p_timeout p = c15_ns ts /\ pinv now p.

Lemma pinvT_new ts : 0 <= ts <= c15_max_seconds -> pinvT ts 0 (pins_new ts 0).
Proof.
  intros H. pose proof (new_timeout ts 0 H) as HT. pose proof (ns_small ts H) as Hs.
  split; [exact HT|]. unfold pinv. rewrite HT.
  unfold pins_new in *. cbn [p_timeout p_next_clean p_tab map] in *. rewrite HT.
  split; [lia|]. split; [lia|]. split; constructor.
Qed.

Lemma pinvT_step ts now p o :
  0 <= ts <= c15_max_seconds -> pin_op_ok o = true -> pinvT ts now p ->
  pinvT ts (fst (fst (pins_step (now, p) o))) (snd (fst (pins_step (now, p) o))).
Proof.
  intros Hts Hok [HT HI].
  destruct o as [k b e|k|k|dt]; cbn [pins_step pin_op_ok] in *.
  - cbn [fst snd]. split.
    + unfold pins_add. destruct (Z.ltb (p_next_clean p) now); exact HT.
    + apply pinv_add; [exact HI|].
      rewrite (lifetime_domain ts p e Hts) by (try exact HT; lia).
      rewrite HT. apply ns_max_ge.
  - pose proof (pinv_get now k p HI) as HG.
    assert (HT' : p_timeout (fst (pins_get now k p)) = c15_ns ts).
    { unfold pins_get. destruct (alookup k (p_tab p)) as [e|]; [|exact HT].
      destruct (Z.ltb now (pin_expire e)); exact HT. }
    destruct (pins_get now k p) as [p' r]. cbn [fst snd] in *. split; assumption.
  - cbn [fst snd]. split; [exact HT|apply pinv_remove; exact HI].
  - cbn [fst snd]. split; [exact HT|]. apply (pinv_mono now); [lia|exact HI].
Qed.

Lemma pinvT_exec ts ops : forall now p,
  0 <= ts <= c15_max_seconds -> forallb pin_op_ok ops = true -> pinvT ts now p ->
  pinvT ts (fst (pins_exec (now, p) ops)) (snd (pins_exec (now, p) ops)).
Proof.
  induction ops as [|o r IH]; intros now p Hts Hok HI; cbn [pins_exec fold_left].
  - exact HI.
  - cbn [forallb] in Hok. apply andb_true_iff in Hok. destruct Hok as [Ho Hr].
    pose proof (pinvT_step ts now p o Hts Ho HI) as H1.
    destruct (fst (pins_step (now, p) o)) as [now1 p1]. cbn [fst snd] in H1.
    apply IH; assumption.
Qed.

Lemma pinvT_after ts ops : pins_domain ts ops = true ->
  pinvT ts (fst (after ts ops)) (snd (after ts ops)).
Proof.
  intros HD. apply domain_split in HD. destruct HD as [Hts Hok].
  rewrite after_exec. apply pinvT_exec; [exact Hts|exact Hok|apply pinvT_new; exact Hts].
Qed.

(* ------------------------------------------------------------------ C15_swept *)
Definition swept (st : Z * pins) : Prop :=
  Forall (fun kv => fst st <= pin_expire (snd kv) + p_timeout (snd st)) (p_tab (snd st)).

Lemma add_next_clean now k b e p : 0 <= p_timeout p -> now <= p_next_clean (pins_add now k b e p).
Proof.
  intros HT. unfold pins_add.
  destruct (Z.ltb_spec (p_next_clean p) now) as [Hc|Hc]; cbn [p_next_clean]; lia.
Qed.

Lemma add_timeout now k b e p : p_timeout (pins_add now k b e p) = p_timeout p.
Proof. unfold pins_add. destruct (Z.ltb (p_next_clean p) now); reflexivity. Qed.

Lemma swept_add now k b e p :
  pinv now p -> p_timeout p <= pins_lifetime p e -> swept (now, pins_add now k b e p).
Proof.
  intros HI HL. pose proof (pinv_add now k b e p HI HL) as (HT & HN & HD & HF).
  pose proof (add_next_clean now k b e p) as HC. rewrite add_timeout in *.
  specialize (HC HT). unfold swept. cbn [fst snd]. rewrite add_timeout.
  apply Forall_forall. intros kv Hkv. pose proof (proj1 (Forall_forall _ _) HF kv Hkv) as H.
  cbn beta in H. lia.
Qed.

(* Right after any add, in any history of the domain, every pin still in the table expired at
   most one dialog timeout ago: pin_expire + timeout >= now. *)
Theorem C15_swept ts pre k b e :
  pins_domain ts (pre ++ [PAdd k b e]) = true ->
  swept (after ts (pre ++ [PAdd k b e])).
Proof.
  intros HD. pose proof HD as HD0. apply domain_split in HD. destruct HD as [Hts Hok].
  apply ok_app in Hok. destruct Hok as [Hpre Hadd].
  assert (Dpre : pins_domain ts pre = true) by (apply domain_split; split; assumption).
  pose proof (pinvT_after ts pre Dpre) as [HT HI].
  rewrite after_exec, exec_app, <- after_exec.
  destruct (after ts pre) as [now p]. cbn [fst snd] in *.
  cbn [pins_exec fold_left pins_step fst].
  apply swept_add; [exact HI|].
  cbn [forallb pin_op_ok] in Hadd.
  rewrite (lifetime_domain ts p e Hts) by (try exact HT; lia).
  rewrite HT. apply ns_max_ge.
Qed.
