(* SpecProxy.v — the whole-proxy properties as EXECUTABLE judges over observables only: the
   case (configuration, peers, events) and, per event, what arrived where.  The judges read SIP
   text with their own minimal reader (lines, first ':', comma lists, <uri>) and share no
   parsing code with the model (Message.v / Uri.v / Hdr.v / Msg.v / Proxy.v's pipeline); they
   reuse only configuration-level helpers that are specified elsewhere (host table look-up,
   static route look-up = C18, the regular-expression subset). *)
From Coq Require Import List Ascii String ZArith Bool.
From Model Require Import Bytes Wire Rx StaticRoute Proxy RunProxy.
Import ListNotations.
Open Scope Z_scope.

(* ------------------------------------------------------------------ minimal reader *)
Record jmsg := { jm_start : bytes; jm_headers : list (bytes * bytes); jm_body : bytes; jm_rest : bytes;
                 jm_has_cl : bool; jm_cl_count : nat; jm_cl_value : option Z }.
Definition jLF : ascii := ascii_of_nat 10.
Definition jCR : ascii := ascii_of_nat 13.
Definition j_strip_cr (l : bytes) : bytes :=
  match rev l with c :: r => if Ascii.eqb c jCR then rev r else l | [] => [] end.
(* lines up to the first empty line; returns them and the bytes after it *)
Fixpoint j_lines (fuel : nat) (s : bytes) (acc : list bytes) : option (list bytes * bytes) :=
  match fuel with
  | O => None
  | S f =>
      match index_byte jLF s with
      | None => None
      | Some i =>
          let line := j_strip_cr (firstn i s) in
          let rest := skipn (S i) s in
          match line with
          | [] => Some (rev acc, rest)
          | _ => j_lines f rest (line :: acc)
          end
      end
  end.
Definition j_name_is (n : bytes) (full compact : string) : bool :=
  equal_fold n (s2b full) || equal_fold n (s2b compact).
Definition is_via (n : bytes) := j_name_is n "via" "v".
Definition is_route (n : bytes) := equal_fold n (s2b "route").
Definition is_rr (n : bytes) := equal_fold n (s2b "record-route").
Definition is_cl (n : bytes) := j_name_is n "content-length" "l".
Definition is_from (n : bytes) := j_name_is n "from" "f".
Definition is_to (n : bytes) := j_name_is n "to" "t".
Definition is_callid (n : bytes) := j_name_is n "call-id" "i".
Definition is_cseq (n : bytes) := equal_fold n (s2b "cseq").

Definition j_header (line : bytes) : option (bytes * bytes) :=
  match index_byte ":"%char line with
  | Some p => Some (firstn p line, trim_space_go (skipn (S p) line))   (* blanks = Unicode white space *)
  | None => None
  end.
Fixpoint j_headers (ls : list bytes) : option (list (bytes * bytes)) :=
  match ls with
  | [] => Some []
  | l :: r => match j_header l, j_headers r with Some h, Some hs => Some (h :: hs) | _, _ => None end
  end.
Definition j_read (b : bytes) : option jmsg :=
  let s := trim_left b in
  match j_lines (S (List.length s)) s [] with
  | Some (start :: hl, rest) =>
      match j_headers hl with
      | Some hs =>
          let cls := filter (fun h => is_cl (fst h)) hs in
          let clv := match cls with h :: _ => atoi (snd h) | [] => None end in
          let n := match clv with Some z => Z.to_nat z | None => O end in
          Some {| jm_start := start; jm_headers := hs; jm_body := firstn n rest; jm_rest := skipn n rest;
                  jm_has_cl := match cls with [] => false | _ => true end;
                  jm_cl_count := List.length cls; jm_cl_value := clv |}
      | None => None
      end
  | _ => None
  end.

Definition j_is_response (m : jmsg) : bool := has_prefix (s2b "SIP/") (jm_start m).
(* The entries of the comma-separated header values whose name satisfies [p], each trimmed by [tr].
   LEFT end of an entry: strings.TrimSpace semantics (ASCII blanks and the UTF-8 encodings of the
   Unicode White_Space runes), for every kind of list.  The proxy reads a header value through
   strings.TrimSpace (parseHeaderLine; [j_header] mirrors it), so the FIRST entry of a value is seen
   without leading white space while an entry that follows a comma is not; an entry that follows a
   comma on the input side can be the first entry of a re-encoded value on the output side (the Via /
   Route entries in front of it were popped), hence both sides must be read the same way.  Nothing is
   ever written in front of the text of an entry, so trimming its left end loses nothing.
   RIGHT end:
   - Route / Record-Route entries ([j_flat]): strings.TrimSpace semantics as well.  parseRouteParam
     applies strings.TrimSpace to the text after '>', so a decoded and re-encoded entry has lost the
     white space (ASCII or Unicode) its parameter tail ended with, also in the middle of a list
     ("<a>,<b>;lr" C2 A0 ",<c>" is relayed as "<b>;lr,<c>").
   - Via entries ([j_flat_via]): ASCII blanks only, NOT the Unicode ones.  ParseVia cuts the entry at
     ';' and keeps every parameter as it stands (no TrimSpace), and the proxy writes ";received=..."
     BEHIND the last parameter of the top entry.  Two counter-examples to trimming the right end of a
     Via entry with TrimSpace semantics (both inside the C14 grammar, whose parameter values may hold
     bytes >= 128):
       request  "Via: SIP/2.0/UDP h;x=a" C2 A0 ",SIP/2.0/TCP g": relayed, correctly, as
                "SIP/2.0/UDP h;x=a" C2 A0 ";received=...": the parameter x keeps its two bytes in the
                output, a reader that dropped them on the input side would reject the relay (C07);
       response whose second entry is "...;rport=40000;received=127.0.0.9" C2 A0 ",...": the proxy
                looks up the host "127.0.0.9" C2 A0 (unknown: nothing is sent), a reader that
                dropped the two bytes would demand a datagram to 127.0.0.9:40000 (C02).
     (A Via entry that is the LAST of its value has been trimmed by the proxy itself, with the value;
     [j_header] does the same.) *)
Definition j_entries (tr : bytes -> bytes) (p : bytes -> bool) (hs : list (bytes * bytes)) : list bytes :=
  flat_map (fun h => if p (fst h) then map tr (split_byte ","%char (snd h)) else []) hs.
Definition j_flat (p : bytes -> bool) (hs : list (bytes * bytes)) : list bytes := j_entries trim_space_go p hs.
Definition j_trim_via (e : bytes) : bytes := trim_right (trim_left_go e).
Definition j_flat_via (hs : list (bytes * bytes)) : list bytes := j_entries j_trim_via is_via hs.
Definition j_first (p : bytes -> bool) (hs : list (bytes * bytes)) : option bytes :=
  match filter (fun h => p (fst h)) hs with h :: _ => Some (snd h) | [] => None end.

(* key[=value] *)
Definition j_kv (s : bytes) : bytes * bytes :=
  match index_byte "="%char s with
  | Some p => (firstn p s, skipn (S p) s)
  | None => (s, [])
  end.
Fixpoint j_get (k : bytes) (l : list (bytes * bytes)) : option bytes :=
  match l with [] => None | (k', v) :: r => if beq k k' then Some v else j_get k r end.

(* one Via entry: "SIP/2.0/UDP host[:port];params" *)
Record jvia := { jv_proto : bytes; jv_transport : bytes; jv_host : bytes; jv_port : option Z;
                 jv_params : list (bytes * bytes) }.
Definition j_via (e : bytes) : option jvia :=
  match split_byte ";"%char e with
  | [] => None
  | head :: ps =>
      match fields head with
      | [proto; sentby] =>
          match split_byte "/"%char proto with
          | [_; _; tr] =>
              let mk h p := Some {| jv_proto := proto; jv_transport := tr; jv_host := h; jv_port := p;
                                    jv_params := map j_kv ps |} in
              match split_byte ":"%char sentby with
              | [h] => mk h None
              | [h; p] => match atoi p with Some z => mk h (Some z) | None => None end
              | _ => None
              end
          | _ => None
          end
      | _ => None
      end
  end.
Definition jvia_eqb (a b : jvia) : bool :=
  beq (jv_proto a) (jv_proto b) && beq (jv_host a) (jv_host b) &&
  match jv_port a, jv_port b with Some x, Some y => Z.eqb x y | None, None => true | _, _ => false end &&
  Nat.eqb (List.length (jv_params a)) (List.length (jv_params b)) &&
  forallb (fun '((k1, v1), (k2, v2)) => beq k1 k2 && beq v1 v2) (combine (jv_params a) (jv_params b)).
Definition jvia_port (v : jvia) : Z :=
  match jv_port v with Some p => p | None => if beq (jv_transport v) (s2b "TLS") then 5061 else 5060 end.
Fixpoint opt_all {A} (l : list (option A)) : option (list A) :=
  match l with
  | [] => Some []
  | Some a :: r => match opt_all r with Some x => Some (a :: x) | None => None end
  | None :: _ => None
  end.

(* a URI as far as routing needs it *)
Record juri := { ju_sip : bool; ju_text : bytes; ju_user : bytes; ju_host : bytes; ju_port : option Z;
                 ju_params : list (bytes * bytes) }.
Definition j_uri (s : bytes) : juri :=
  let go (body : bytes) :=
    let b1 := match index_byte "?"%char body with Some p => firstn p body | None => body end in
    match split_byte ";"%char b1 with
    | [] => {| ju_sip := true; ju_text := s; ju_user := []; ju_host := []; ju_port := None; ju_params := [] |}
    | hp :: ps =>
        let '(user, hostport) := match index_byte "@"%char hp with
                                 | Some p => (match index_byte ":"%char (firstn p hp) with
                                              | Some q => firstn q hp | None => firstn p hp end, skipn (S p) hp)
                                 | None => ([], hp) end in
        let '(h, port) := match index_byte ":"%char hostport with
                          | Some p => (firstn p hostport, atoi (skipn (S p) hostport))
                          | None => (hostport, None) end in
        {| ju_sip := true; ju_text := s; ju_user := user; ju_host := h; ju_port := port; ju_params := map j_kv ps |}
    end in
  if has_prefix (s2b "sip:") s then go (skipn 4 s)
  else if has_prefix (s2b "sips:") s then go (skipn 5 s)
  else {| ju_sip := false; ju_text := s; ju_user := []; ju_host := []; ju_port := None; ju_params := [] |}.
Definition ju_transport (u : juri) : bytes :=
  match j_get (s2b "transport") (ju_params u) with Some t => t | None => s2b "udp" end.
Definition ju_eff_port (u : juri) : Z :=
  match ju_port u with Some p => if Z.eqb p 0 then (if beq (ju_transport u) (s2b "tls") then 5061 else 5060) else p
                  | None => if beq (ju_transport u) (s2b "tls") then 5061 else 5060 end.
(* the URI of a name-addr / addr-spec header value or list element *)
Definition j_entry_uri (e : bytes) : juri :=
  match index_byte "<"%char e, index_byte ">"%char e with
  | Some a, Some b => j_uri (slice e (S a) b)
  | _, _ => j_uri (match index_byte ";"%char e with Some p => firstn p e | None => e end)
  end.
Definition j_entry_params (e : bytes) : list (bytes * bytes) :=
  let tail := match index_byte ">"%char e with
              | Some b => skipn (S b) e
              | None => match index_byte ";"%char e with Some p => skipn p e | None => [] end
              end in
  match split_byte ";"%char tail with _ :: ps => map j_kv ps | [] => [] end.

(* ------------------------------------------------------------------ reading a case *)
Definition d_obs_event : dec (list (bytes * bytes) * list nat) :=
  dlet outs := d_list (d_pair d_bytes d_bytes) in dlet cl := d_list d_nat in d_ret (outs, cl).

Definition is_dial (o : bytes * bytes) : bool := has_prefix (s2b "dial:") (fst o).
Definition msgs_of (outs : list (bytes * bytes)) : list (bytes * bytes) := filter (fun o => negb (is_dial o)) outs.

Record jin := { ji_li : nat; ji_tcp : bool; ji_conn : nat; ji_src : bytes; ji_sport : Z; ji_data : bytes }.

(* judge-side bookkeeping, rebuilt from the events and the observations alone *)
Record jstate := { js_backends : list (list bytes);         (* per listen entry: current backend addresses *)
                   js_conns : list (nat * (nat * bytes * Z)); (* connection -> (listen entry, peer ip, peer port) *)
                   js_next_conn : nat;
                   js_learned : list (bytes * (nat * bool));  (* host -> (listen entry, learned over TCP?) *)
                   js_event : nat }.
Definition js_init (c : cfg) : jstate :=
  {| js_backends := map lc_backends (c_listens c); js_conns := []; js_next_conn := 0; js_learned := []; js_event := 0 |}.
Fixpoint upd_nth {A} (l : list A) (i : nat) (f : A -> A) : list A :=
  match l, i with
  | [], _ => []
  | x :: r, O => f x :: r
  | x :: r, S j => x :: upd_nth r j f
  end.
(* DIALLED vs ACCEPTED connections.  A connection the proxy ACCEPTED is read by the TCP transport of the listen
   entry (listener address, TCP port); a connection the proxy DIALLED (towards a TCP next hop / backend) is read
   by that connection's own transport, whose local end is the listener address with an OS-chosen port.  For a
   request that arrives on a dialled connection
     - no Route entry and no Request-URI "designates the receiving listener" by address and port (the proxy
       compares with the port of the connection's local end): C03 / C13 / C06 below;
     - the hosts learned from it are reachable through that connection's transport, which the proxy names
       "SIP/2.0/TCP <listener address>" WITHOUT a port (own Record-Route: "<sip:<listener address>;lr>"): C06.
   The record types are left as they are: the judge writes the listen entry of a dialled connection (in
   js_conns) and of a host learned over one (in js_learned, with TCP = true) as  entry + dial_mark.
   (dial_mark bounds the number of listen entries a configuration may have for the reading to be unambiguous;
   natural numbers are unary in the extracted judge, hence a small mark.) *)
Definition dial_mark : nat := 4096.
Definition unmark (li : nat) : nat := if Nat.leb dial_mark li then (li - dial_mark)%nat else li.
Definition conn_dialled (st : jstate) (c : nat) : bool :=
  match find (fun x => Nat.eqb (fst x) c) (js_conns st) with
  | Some (_, (li, _, _)) => Nat.leb dial_mark li
  | None => false
  end.
Definition j_input (st : jstate) (ev : event) : option jin :=
  match ev with
  | EvUdp li src sport data => Some {| ji_li := li; ji_tcp := false; ji_conn := 0; ji_src := src; ji_sport := sport; ji_data := data |}
  | EvTcpData c data =>
      match find (fun x => Nat.eqb (fst x) c) (js_conns st) with
      | Some (_, (li, ip, port)) =>
          Some {| ji_li := unmark li; ji_tcp := true; ji_conn := c; ji_src := ip; ji_sport := port; ji_data := data |}
      | None => None
      end
  | _ => None
  end.
(* the input arrived on a connection the proxy had dialled *)
Definition ji_dialled (st : jstate) (i : jin) : bool := ji_tcp i && conn_dialled st (ji_conn i).
Definition count_dials (outs : list (bytes * bytes)) : nat := List.length (filter is_dial outs).

(* learning, as the property C06 describes it: source address and every Via host of a request (over a dialled
   connection: with the mark) *)
Definition j_learn (st : jstate) (i : jin) (m : jmsg) : list (bytes * (nat * bool)) :=
  if j_is_response m then js_learned st
  else
    let hosts := ji_src i :: flat_map (fun e => match j_via e with Some v => [jv_host v] | None => [] end)
                                      (j_flat_via (jm_headers m)) in
    let li := if ji_dialled st i then (ji_li i + dial_mark)%nat else ji_li i in
    fold_left (fun l h => aset h (li, ji_tcp i) l) hosts (js_learned st).

(* a connection the proxy opened: label "dial:<ip>:<port>", payload = the connection's id; it
   belongs to the listen entry whose event caused it (recorded with the mark) and its peer is the dialled address *)
Definition dialled (li : nat) (outs : list (bytes * bytes)) : list (nat * (nat * bytes * Z)) :=
  flat_map (fun o => if is_dial o then
                       let a := skipn 5 (fst o) in
                       match last_index_byte ":"%char a, atoi (snd o) with
                       | Some p, Some id => [(Z.to_nat id, ((li + dial_mark)%nat, firstn p a, atoi_val (skipn (S p) a)))]
                       | _, _ => []
                       end
                     else []) outs.
Definition js_step (st : jstate) (ev : event) (outs : list (bytes * bytes)) : jstate :=
  let li0 := match ev with
             | EvUdp li _ _ _ => li
             | EvTcpData c _ => match find (fun x => Nat.eqb (fst x) c) (js_conns st) with
                                | Some (_, (li, _, _)) => unmark li | None => O end
             | _ => O end in
  let base (bk : list (list bytes)) (cs : list (nat * (nat * bytes * Z))) (nc : nat) (ln : list (bytes * (nat * bool))) :=
    {| js_backends := bk; js_conns := cs ++ dialled li0 outs; js_next_conn := nc + count_dials outs; js_learned := ln;
       js_event := S (js_event st) |} in
  match ev with
  | EvTcpAccept li ip port =>
      base (js_backends st) (js_conns st ++ [(js_next_conn st, (li, ip, port))]) (S (js_next_conn st)) (js_learned st)
  | EvBackendAdd li a => base (upd_nth (js_backends st) li (fun l => l ++ [a])) (js_conns st) (js_next_conn st) (js_learned st)
  | EvBackendRemove li a =>
      base (upd_nth (js_backends st) li (fun l => filter (fun x => negb (beq x a)) l)) (js_conns st) (js_next_conn st) (js_learned st)
  | _ =>
      let ln := match j_input st ev with
                | Some i => match j_read (ji_data i) with Some m => j_learn st i m | None => js_learned st end
                | None => js_learned st end in
      base (js_backends st) (js_conns st) (js_next_conn st) ln
  end.

(* ... and the connections that are gone after the event: the one the client closed (EvTcpClose), and those the
   proxy was seen to close (after bytes that do not decode) *)
Definition js_step_c (st : jstate) (ev : event) (outs : list (bytes * bytes)) (closed : list nat) : jstate :=
  let st' := js_step st ev outs in
  let gone := (match ev with EvTcpClose c => [c] | _ => [] end) ++ closed in
  {| js_backends := js_backends st';
     js_conns := filter (fun x => negb (existsb (Nat.eqb (fst x)) gone)) (js_conns st');
     js_next_conn := js_next_conn st'; js_learned := js_learned st'; js_event := js_event st' |}.

(* generic driver: [f] judges one event given the bookkeeping BEFORE it; the verdict is the
   index of the first offending event and a reason code *)
Fixpoint j_run (f : proxy_case -> jstate -> event -> list (bytes * bytes) -> list nat -> nat)
         (c : proxy_case) (st : jstate) (evs : list event) (obs : list (list (bytes * bytes) * list nat))
  : option (nat * nat) :=
  match evs, obs with
  | ev :: er, (outs, closed) :: or_ =>
      match f c st ev outs closed with
      | O => j_run f c (js_step_c st ev outs closed) er or_
      | why => Some (js_event st, why)
      end
  | _, _ => None
  end.

(* ------------------------------------------------------------------ shared readings *)
Definition listener_port (lc : listen_cfg) (tcp : bool) : Z := if tcp then lc_tcp lc else lc_udp lc.
Definition j_same_address (c : cfg) (a b : bytes) : bool :=
  beq a b || match get_ip c a, get_ip c b with Some x, Some y => beq x y | _, _ => false end.
Definition udp_label (ip : bytes) (port : Z) : bytes := s2b "udp:" ++ ip ++ ":"%char :: itoa port.
Definition is_conn_label (l : bytes) : bool := has_prefix (s2b "conn:") l.
Definition lower_is (s : bytes) (t : string) : bool := beq (to_lower s) (s2b t).

(* where a message for (transport, host, port) must show up; None = cannot be told (host not
   resolvable from the configuration) *)
Inductive jdest := JDrop | JUdp (ip : bytes) (port : Z) | JTcp (ip : bytes) (port : Z) | JAny.
Definition j_dest (c : cfg) (transport host : bytes) (port : Z) : jdest :=
  if lower_is transport "udp" then
    match get_ip c host with Some ip => JUdp ip port | None => JAny end
  else if lower_is transport "tcp" then
    match get_ip c host with Some ip => JTcp ip port | None => JAny end
  else JDrop.
Definition has_peer (l : list (bytes * Z)) (ip : bytes) (port : Z) : bool :=
  existsb (fun '(i, p) => beq i ip && Z.eqb p port) l.
(* what must be observed for a message prescribed to go to [d]: a datagram at that peer when
   the driver owns a socket there (otherwise the datagram is sent but cannot be observed);
   bytes on ONE connection when the peer accepts connections or already has one open to the
   proxy (a refusing peer yields nothing) *)
Definition dest_ok (pc : proxy_case) (st : jstate) (d : jdest) (ms : list (bytes * bytes)) : bool :=
  match d with
  | JAny => Nat.leb (List.length ms) 1
  | JDrop => match ms with [] => true | _ => false end
  | JUdp ip port =>
      if has_peer (pc_udp_endpoints pc) ip port
      then match ms with [(l', _)] => beq (udp_label ip port) l' | _ => false end
      else match ms with [] => true | _ => false end
  | JTcp ip port =>
      match ms with
      | [(l', _)] => is_conn_label l'
      | [] => negb (has_peer (pc_tcp_listeners pc) ip port) &&
              negb (existsb (fun '(_, (_, i, p)) => beq i ip && Z.eqb p port) (js_conns st))
      | _ => false
      end
  end.

(* ------------------------------------------------------------------ C01 *)
Definition routing_header (n : bytes) : bool := is_via n || is_route n || is_rr n || is_cl n.
Definition kept (m : jmsg) : list (bytes * bytes) := filter (fun h => negb (routing_header (fst h))) (jm_headers m).
Fixpoint hs_eqb (a b : list (bytes * bytes)) : bool :=
  match a, b with
  | [], [] => true
  | (n1, v1) :: r1, (n2, v2) :: r2 => beq n1 n2 && beq v1 v2 && hs_eqb r1 r2
  | _, _ => false
  end.
Definition blank (c : ascii) : bool := Ascii.eqb c " "%char || Ascii.eqb c (ascii_of_nat 9).
Definition name_ok (n : bytes) : bool :=
  match n with [] => false | c :: _ => negb (blank c) && negb (blank (last n c)) end.
Definition single_blanks (s : bytes) : bool := beq s (join_byte " "%char (fields s)).
Definition uri_scheme_ok (u : bytes) : bool :=
  has_prefix (s2b "sip:") u || has_prefix (s2b "sips:") u || has_prefix (s2b "tel:") u || has_prefix (s2b "urn:") u.
Definition in_domain_C01 (m : jmsg) : bool :=
  jm_has_cl m && forallb (fun h => name_ok (fst h)) (jm_headers m) && single_blanks (jm_start m) &&
  (if j_is_response m then true
   else match fields (jm_start m) with [_; u; _] => uri_scheme_ok u | _ => false end) &&
  match jm_cl_value m with Some z => Z.leb 0 z && Z.leb z (Z.of_nat (List.length (jm_body m))) | None => false end.
(* reason codes: 1 output unreadable, 2 start line, 3 headers, 4 body, 5 Content-Length *)
Definition judge_C01_pair (i o : jmsg) : nat :=
  if negb (beq (jm_start i) (jm_start o)) then 2
  else if negb (hs_eqb (kept i) (kept o)) then 3
  else if negb (beq (jm_body i) (jm_body o)) then 4
  else if negb (Nat.eqb (jm_cl_count o) 1 &&
                match jm_cl_value o with Some z => Z.eqb z (Z.of_nat (List.length (jm_body o))) | None => false end &&
                match jm_rest o with [] => true | _ => false end) then 5
  else 0.
Definition single_message (i : jmsg) : bool := match trim_left (jm_rest i) with [] => true | _ => false end.
(* the same without the "nothing follows the body" clause, for messages read out of a stream *)
Definition judge_C01_pair_nr (i o : jmsg) : nat :=
  if negb (beq (jm_start i) (jm_start o)) then 2
  else if negb (hs_eqb (kept i) (kept o)) then 3
  else if negb (beq (jm_body i) (jm_body o)) then 4
  else if negb (Nat.eqb (jm_cl_count o) 1 &&
                match jm_cl_value o with Some z => Z.eqb z (Z.of_nat (List.length (jm_body o))) | None => false end) then 5
  else 0.
(* the messages of a byte stream, one after the other *)
Fixpoint j_read_all (fuel : nat) (b : bytes) : list jmsg :=
  match fuel with
  | O => []
  | S f => match j_read b with
           | Some m => m :: (match trim_left (jm_rest m) with [] => [] | _ => j_read_all f (jm_rest m) end)
           | None => []
           end
  end.
Fixpoint first_nonzero (l : list nat) : nat :=
  match l with [] => O | O :: r => first_nonzero r | n :: _ => n end.
Definition judge_C01_event (pc : proxy_case) (st : jstate) (ev : event) (outs : list (bytes * bytes)) (closed : list nat) : nat :=
  let c := pc_cfg pc in
  match j_input st ev with
  | Some i =>
      match j_read (ji_data i) with
      | Some m =>
          if (negb (ji_tcp i) || single_message m)%bool then
            if in_domain_C01 m then
              first_nonzero (map (fun o => match j_read (snd o) with Some om => judge_C01_pair m om | None => 1%nat end)
                                 (msgs_of outs))
            else O
          else
            (* several messages pipelined in one TCP chunk: every relayed message is matched with
               the received message of the same Call-ID (what left on one connection during the
               event is read as a sequence of messages too) *)
            let ins := j_read_all 64 (ji_data i) in
            let os := flat_map (fun o => j_read_all 64 (snd o)) (msgs_of outs) in
            first_nonzero (map (fun om =>
              let cands := filter (fun im => match j_first is_callid (jm_headers im), j_first is_callid (jm_headers om) with
                                             | Some a, Some b => beq a b | _, _ => false end) ins in
              match cands with
              | [] => O
              | _ => if forallb in_domain_C01 cands then
                       (if existsb (fun im => Nat.eqb (judge_C01_pair_nr im om) 0) cands then O
                        else match cands with im :: _ => judge_C01_pair_nr im om | [] => O end)
                     else O
              end) os)
      | None => O
      end
  | None => O
  end.

(* ------------------------------------------------------------------ C02 *)
(* reason codes: 1 relayed although it must be dropped / wrong destination, 2 Via stack of the
   relayed response, 3 output unreadable *)
Definition judge_C02_event (pc : proxy_case) (st : jstate) (ev : event) (outs : list (bytes * bytes)) (closed : list nat) : nat :=
  let c := pc_cfg pc in
  match j_input st ev with
  | Some i =>
      match j_read (ji_data i) with
      | Some m =>
          if (j_is_response m && jm_has_cl m && (negb (ji_tcp i) || single_message m))%bool then
            let es := j_flat_via (jm_headers m) in
            let ms := msgs_of outs in
            match es with
            | [] | [_] => if dest_ok pc st JDrop ms then O else 1%nat
            | e1 :: e2 :: rest =>
                match j_via e1, j_via e2 with
                | Some _, Some v2 =>
                    match opt_all (map j_via rest) with
                    | None => O                    (* a deeper entry is undecodable: not determined *)
                    | Some vrest =>
                        let '(host, port) :=
                          match j_get (s2b "received") (jv_params v2) with
                          | Some h => (h, match j_get (s2b "rport") (jv_params v2) with
                                          | Some r => match atoi r with Some p => p | None => jvia_port v2 end
                                          | None => jvia_port v2 end)
                          | None => (jv_host v2, jvia_port v2)
                          end in
                        let d := j_dest c (jv_transport v2) host port in
                        if negb (dest_ok pc st d ms) then 1%nat
                        else match ms with
                             | [(_, ob)] =>
                                 match j_read ob with
                                 | Some om =>
                                     match opt_all (map j_via (j_flat_via (jm_headers om))) with
                                     | Some ovs =>
                                         if (Nat.eqb (List.length ovs) (S (List.length vrest)) &&
                                             forallb (fun '(a, b) => jvia_eqb a b) (combine ovs (v2 :: vrest)))%bool
                                         then O else 2%nat
                                     | None => 2%nat
                                     end
                                 | None => 3%nat
                                 end
                             | _ => O
                             end
                    end
                | _, _ => if dest_ok pc st JDrop ms then O else 1%nat
                end
            end
          else O
      | None => O
      end
  | None => O
  end.

(* ------------------------------------------------------------------ C03 / C13 *)
Record jreq := { jq_method : bytes; jq_ruri : bytes; jq_routes : list bytes; jq_to : option bytes }.
Definition j_request (m : jmsg) : option jreq :=
  if j_is_response m then None
  else match fields (jm_start m) with
       | [meth; u; _] => Some {| jq_method := meth; jq_ruri := u; jq_routes := j_flat is_route (jm_headers m);
                                 jq_to := j_first is_to (jm_headers m) |}
       | _ => None
       end.
(* the top Route entry designates the receiving listener *)
Definition j_own (c : cfg) (lc : listen_cfg) (tcp : bool) (e : bytes) : bool :=
  let u := j_entry_uri e in
  ju_sip u && Z.eqb (ju_eff_port u) (listener_port lc tcp) && j_same_address c (ju_host u) (lc_addr lc).
Definition j_service_match (c : cfg) (lc : listen_cfg) (tcp : bool) (ruri : bytes) : bool :=
  let n := new_my_name (c_name c) in
  let u := j_uri ruri in
  if ju_sip u then
    (beq (ju_host u) (lc_addr lc) && Z.eqb (ju_eff_port u) (listener_port lc tcp)) || match_sip_uri n (ju_user u) (ju_host u)
  else match_absolute_uri n ruri.
(* the hop the property prescribes: Some (Some dest) relayed there, Some None dropped,
   None = outside the stated domain (non-SIP Route or To URI) *)
Inductive jhop := HOut | HDrop | HHop (d : jdest) | HBackend.
Definition j_choose (c : cfg) (lc : listen_cfg) (tcp : bool) (q : jreq) : jhop :=
  let remaining := match jq_routes q with
                   | e :: r => if j_own c lc tcp e then r else e :: r
                   | [] => [] end in
  match remaining with
  | e :: _ =>
      let u := j_entry_uri e in
      if ju_sip u then HHop (j_dest c (ju_transport u) (ju_host u) (ju_eff_port u)) else HOut
  | [] =>
      let static :=
        match jq_to q with
        | Some t => let u := j_entry_uri t in
                    if ju_sip u then
                      match find_route (route_table_of c) (ju_host u) with
                      | Some it => Some (Some (j_dest c (ri_proto it) (ri_host it) (ri_port it)))
                      | None => Some None
                      end
                    else Some None             (* a tel:/urn: To has no host: no static route applies *)
        | None => Some None
        end in
      match static with
      | None => HOut
      | Some (Some d) => HHop d
      | Some None => if j_service_match c lc tcp (jq_ruri q) then HBackend else HDrop
      end
  end.
(* The same for a request that arrived on a connection the proxy had DIALLED ([d] = true): it is received by that
   connection's own transport, whose port is not the listener's, so no Route entry is the proxy's own and the
   Request-URI does not name the receiving transport by address and port (the names of the service still count).
   With [d] = false these are j_own / j_service_match / j_choose. *)
Definition j_own_at (d : bool) (c : cfg) (lc : listen_cfg) (tcp : bool) (e : bytes) : bool :=
  negb d && j_own c lc tcp e.
Definition j_service_match_at (d : bool) (c : cfg) (lc : listen_cfg) (tcp : bool) (ruri : bytes) : bool :=
  let n := new_my_name (c_name c) in
  let u := j_uri ruri in
  if ju_sip u then
    (negb d && (beq (ju_host u) (lc_addr lc) && Z.eqb (ju_eff_port u) (listener_port lc tcp))) || match_sip_uri n (ju_user u) (ju_host u)
  else match_absolute_uri n ruri.
Definition j_choose_d (d : bool) (c : cfg) (lc : listen_cfg) (tcp : bool) (q : jreq) : jhop :=
  let remaining := match jq_routes q with
                   | e :: r => if j_own_at d c lc tcp e then r else e :: r
                   | [] => [] end in
  match remaining with
  | e :: _ =>
      let u := j_entry_uri e in
      if ju_sip u then HHop (j_dest c (ju_transport u) (ju_host u) (ju_eff_port u)) else HOut
  | [] =>
      let static :=
        match jq_to q with
        | Some t => let u := j_entry_uri t in
                    if ju_sip u then
                      match find_route (route_table_of c) (ju_host u) with
                      | Some it => Some (Some (j_dest c (ri_proto it) (ri_host it) (ri_port it)))
                      | None => Some None
                      end
                    else Some None
        | None => Some None
        end in
      match static with
      | None => HOut
      | Some (Some d') => HHop d'
      | Some None => if j_service_match_at d c lc tcp (jq_ruri q) then HBackend else HDrop
      end
  end.
Definition backend_labels (l : list bytes) : list bytes := map (fun a => s2b "udp:" ++ a) l.
(* reason codes: 1 more than one destination, 2 wrong destination / relayed although dropped,
   3 dropped although a hop is prescribed *)
Definition judge_C03_event (pc : proxy_case) (st : jstate) (ev : event) (outs : list (bytes * bytes)) (closed : list nat) : nat :=
  let c := pc_cfg pc in
  match j_input st ev with
  | Some i =>
      match j_read (ji_data i), nth_opt (c_listens c) (ji_li i) with
      | Some m, Some lc =>
          if (jm_has_cl m && (negb (ji_tcp i) || single_message m))%bool then
            match j_request m with
            | Some q =>
                let ms := msgs_of outs in
                if Nat.ltb 1 (List.length ms) then 1%nat
                else match j_choose_d (ji_dialled st i) c lc (ji_tcp i) q with
                     | HOut => O
                     | HDrop => match ms with [] => O | _ => 2%nat end
                     | HHop d => if dest_ok pc st d ms then O else match ms with [] => 3%nat | _ => 2%nat end
                     | HBackend =>
                         let bs := backend_labels (match nth_opt (js_backends st) (ji_li i) with Some l => l | None => [] end) in
                         match ms, bs with
                         | [], [] => O
                         | [], _ => 3%nat
                         | [(l, _)], _ => if mem_bytes l bs then O else 2%nat
                         | _, _ => 1%nat
                         end
                     end
            | None => O
            end
          else O
      | _, _ => O
      end
  | None => O
  end.

(* C13: the Route entries the relayed request carries.  reason: 1 wrong entries *)
Definition all_sip (l : list bytes) : bool := forallb (fun e => ju_sip (j_entry_uri e)) l.
Definition judge_C13_event (pc : proxy_case) (st : jstate) (ev : event) (outs : list (bytes * bytes)) (closed : list nat) : nat :=
  let c := pc_cfg pc in
  match j_input st ev with
  | Some i =>
      match j_read (ji_data i), nth_opt (c_listens c) (ji_li i) with
      | Some m, Some lc =>
          if (jm_has_cl m && (negb (ji_tcp i) || single_message m))%bool then
            match j_request m with
            | Some q =>
                if all_sip (jq_routes q) then
                  let own := match jq_routes q with e :: _ => j_own_at (ji_dialled st i) c lc (ji_tcp i) e | [] => false end in
                  let after_own := if own then tl (jq_routes q) else jq_routes q in
                  let expected := match after_own with
                                  | _ :: r => if c_keep_next_hop c then after_own else r
                                  | [] => [] end in
                  first_nonzero (map (fun o => match j_read (snd o) with
                                               | Some om => if Nat.eqb (List.length (j_flat is_route (jm_headers om))) (List.length expected) &&
                                                               forallb (fun '(a, b) => beq a b) (combine (j_flat is_route (jm_headers om)) expected)
                                                            then O else 1%nat
                                               | None => O end) (msgs_of outs))
                else O
            | None => O
            end
          else O
      | _, _ => O
      end
  | None => O
  end.

(* ------------------------------------------------------------------ C07 / C06 *)
(* SetParam semantics stated on parameter lists: replace the first entry in place, else append *)
Fixpoint p_set (k v : bytes) (l : list (bytes * bytes)) : list (bytes * bytes) :=
  match l with
  | [] => [(k, v)]
  | (k', v') :: r => if beq k k' then (k', v) :: r else (k', v') :: p_set k v r
  end.
Definition stamped (on : bool) (src : bytes) (sport : Z) (v : jvia) : jvia :=
  if on then
    let ps1 := p_set (s2b "received") src (jv_params v) in
    let ps2 := match j_get (s2b "rport") ps1 with Some _ => p_set (s2b "rport") (itoa sport) ps1 | None => ps1 end in
    {| jv_proto := jv_proto v; jv_transport := jv_transport v; jv_host := jv_host v; jv_port := jv_port v; jv_params := ps2 |}
  else v.
Definition received_on (lc : listen_cfg) : bool := negb (lc_no_received lc).
(* the Via stack of a relayed request, beneath the entry the proxy may have pushed *)
Definition own_via (lc : listen_cfg) (v : jvia) (branch : bytes) : bool :=
  beq (jv_host v) (lc_addr lc) &&
  match jv_port v with Some p => Z.eqb p (lc_udp lc) || Z.eqb p (lc_tcp lc) | None => false end &&
  match j_get (s2b "branch") (jv_params v) with Some b => beq b branch | None => false end.
(* reason codes C07: 1 sender entry not as prescribed, 2 another entry changed *)
Definition judge_C07_event (pc : proxy_case) (st : jstate) (ev : event) (outs : list (bytes * bytes)) (closed : list nat) : nat :=
  let c := pc_cfg pc in
  match j_input st ev with
  | Some i =>
      match j_read (ji_data i), nth_opt (c_listens c) (ji_li i) with
      | Some m, Some lc =>
          if (negb (j_is_response m) && jm_has_cl m && (negb (ji_tcp i) || single_message m))%bool then
            match opt_all (map j_via (j_flat_via (jm_headers m))) with
            | Some (v1 :: vrest) =>
                let want := stamped (received_on lc) (ji_src i) (ji_sport i) v1 :: vrest in
                first_nonzero (map (fun o =>
                  match j_read (snd o) with
                  | Some om =>
                      match opt_all (map j_via (j_flat_via (jm_headers om))) with
                      | Some ovs =>
                          let ovs' := match ovs with
                                      | v :: r => if Nat.ltb (List.length want) (List.length ovs) then r else ovs
                                      | [] => [] end in
                          match ovs', want with
                          | o1 :: orest, w1 :: wrest =>
                              if negb (jvia_eqb o1 w1) then 1%nat
                              else if (Nat.eqb (List.length orest) (List.length wrest) &&
                                       forallb (fun '(a, b) => jvia_eqb a b) (combine orest wrest))%bool then O else 2%nat
                          | _, _ => 2%nat
                          end
                      | None => 2%nat
                      end
                  | None => O
                  end) (msgs_of outs))
            | _ => O
            end
          else O
      | _, _ => O
      end
  | None => O
  end.

(* C06.  reason codes: 1 Via stack, 2 Record-Route stack, 3 branch *)
Definition jtrans_of (c : cfg) (li : nat) (tcp : bool) : option (bytes * bytes * Z) :=
  match nth_opt (c_listens c) li with
  | Some lc => Some (if tcp then s2b "TCP" else s2b "UDP", lc_addr lc, listener_port lc tcp)
  | None => None
  end.
(* the identity of the transport a learned entry stands for.  An entry with the mark (learned from a request that
   arrived on a connection THE PROXY HAD DIALLED, e.g. a TCP next hop that sent a request back on it) stands for
   that connection's own transport: the proxy names it "SIP/2.0/TCP <listener address>" WITHOUT a port (the
   OS-chosen local port is not written; Proxy.tcp_client_send: cn_from has t_port 0) and its own Record-Route
   entry is "<sip:<listener address>;lr>".  As in the model (stransport, t_port = 0) port 0 stands for "no port". *)
Definition jident_of (c : cfg) (li : nat) (tcp : bool) : option (bytes * bytes * Z) :=
  if (tcp && Nat.leb dial_mark li)%bool then
    match nth_opt (c_listens c) (li - dial_mark)%nat with
    | Some lc => Some (s2b "TCP", lc_addr lc, 0%Z)
    | None => None
    end
  else jtrans_of c li tcp.
Definition first_of (lc : listen_cfg) : bytes * bytes * Z :=
  if Z.ltb 0 (lc_udp lc) then (s2b "UDP", lc_addr lc, lc_udp lc) else (s2b "TCP", lc_addr lc, lc_tcp lc).
Definition judge_C06_event (pc : proxy_case) (st : jstate) (ev : event) (outs : list (bytes * bytes)) (closed : list nat) : nat :=
  let c := pc_cfg pc in
  match j_input st ev with
  | Some i =>
      match j_read (ji_data i), nth_opt (c_listens c) (ji_li i) with
      | Some m, Some lc =>
          if (negb (j_is_response m) && jm_has_cl m && (negb (ji_tcp i) || single_message m))%bool then
            match j_request m, opt_all (map j_via (j_flat_via (jm_headers m))) with
            | Some q, Some ivs =>
                (* the table as it is AFTER this request has been learned from *)
                let learned := j_learn st i m in
                let hop := j_choose_d (ji_dialled st i) c lc (ji_tcp i) q in
                (* which identity, if any, the proxy must put on top: (protocol, address, port); port 0 = the
                   port-less form (jident_of: a host learned over a connection the proxy had dialled) *)
                let ident :=
                  match hop with
                  | HBackend => Some (first_of lc)
                  | HHop _ =>
                      let remaining := match jq_routes q with
                                       | e :: r => if j_own_at (ji_dialled st i) c lc (ji_tcp i) e then r else e :: r
                                       | [] => [] end in
                      let host := match remaining with
                                  | e :: _ => Some (ju_host (j_entry_uri e))
                                  | [] => match jq_to q with
                                          | Some t => match find_route (route_table_of c) (ju_host (j_entry_uri t)) with
                                                      | Some it => Some (ri_host it) | None => None end
                                          | None => None end
                                  end in
                      match host with
                      | Some h => match alookup h learned with
                                  | Some (li', tcp') => jident_of c li' tcp'
                                  | None => None end
                      | None => None
                      end
                  | _ => None
                  end in
                let in_rr := j_flat is_rr (jm_headers m) in
                if match hop with HOut => true | _ => false end then O else
                let must := match hop with
                            | HBackend => lc_must_rr lc
                            | _ => lc_must_rr lc end in
                first_nonzero (map (fun o =>
                  match j_read (snd o) with
                  | Some om =>
                      match opt_all (map j_via (j_flat_via (jm_headers om))) with
                      | Some ovs =>
                          let out_rr := j_flat is_rr (jm_headers om) in
                          match ident with
                          | Some (proto, addr, port) =>
                              match ovs with
                              | top :: rest =>
                                  if negb (beq (jv_transport top) proto && beq (jv_host top) addr &&
                                           match jv_port top with
                                           | Some p => negb (Z.eqb port 0) && Z.eqb p port
                                           | None => Z.eqb port 0 end &&
                                           Nat.eqb (List.length rest) (List.length ivs) &&
                                           forallb (fun '(a, b) => beq (jv_host a) (jv_host b) && beq (jv_proto a) (jv_proto b))
                                                   (combine rest ivs))%bool then 1%nat
                                  else if negb (match j_get (s2b "branch") (jv_params top) with
                                                | Some b => beq b (branch_of (js_event st)) | None => false end) then 3%nat
                                  else
                                    let own_rr := if Z.eqb port 0 then s2b "<sip:" ++ addr ++ s2b ";lr>"
                                                  else s2b "<sip:" ++ addr ++ ":"%char :: itoa port ++ s2b ";lr>" in
                                    let want_rr := if (match in_rr with [] => false | _ => true end || must)%bool
                                                   then own_rr :: in_rr else in_rr in
                                    if (Nat.eqb (List.length out_rr) (List.length want_rr) &&
                                        forallb (fun '(a, b) => beq a b) (combine out_rr want_rr))%bool then O else 2%nat
                              | [] => 1%nat
                              end
                          | None =>
                              if negb (Nat.eqb (List.length ovs) (List.length ivs)) then 1%nat
                              else if (Nat.eqb (List.length out_rr) (List.length in_rr) &&
                                       forallb (fun '(a, b) => beq a b) (combine out_rr in_rr))%bool then O else 2%nat
                          end
                      | None => 1%nat
                      end
                  | None => O
                  end) (msgs_of outs))
            | _, _ => O
            end
          else O
      | _, _ => O
      end
  | None => O
  end.

(* ------------------------------------------------------------------ runner *)
Definition judge_proxy_with (f : proxy_case -> jstate -> event -> list (bytes * bytes) -> list nat -> nat) (args : list bytes) : list bytes :=
  match d_proxy_case args with
  | Some (pc, obs) =>
      match run_dec (d_rep d_obs_event (List.length (pc_events pc))) obs with
      | Some o =>
          match j_run f pc (js_init (pc_cfg pc)) (pc_events pc) o with
          | None => [s2b "ok"]
          | Some (e, why) => [s2b "bad"; e_nat e; e_nat why]
          end
      | None => [s2b "decode-error"]
      end
  | None => [s2b "decode-error"]
  end.
