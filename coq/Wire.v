(* Wire.v — decoding/encoding of correspondence cases.  A case is a list of byte strings
   (the harness hex-encodes them, one case per line); numbers travel as decimal text.
   Everything here is executable in Coq (vm_compute) and in the extracted OCaml. *)
From Coq Require Import List Ascii String ZArith Bool.
From Model Require Import Bytes.
Import ListNotations.

Definition dec (A : Type) := list bytes -> option (A * list bytes).

Definition d_ret {A} (a : A) : dec A := fun l => Some (a, l).
Definition d_bind {A B} (d : dec A) (f : A -> dec B) : dec B :=
  fun l => match d l with Some (a, r) => f a r | None => None end.
Notation "'dlet' x ':=' d 'in' k" := (d_bind d (fun x => k))
  (at level 200, x pattern, d at level 100, k at level 200, right associativity).

Definition d_bytes : dec bytes :=
  fun l => match l with x :: r => Some (x, r) | [] => None end.
Definition d_int : dec Z :=
  fun l => match l with
           | x :: r => match atoi x with Some z => Some (z, r) | None => None end
           | [] => None
           end.
Definition d_nat : dec nat :=
  d_bind d_int (fun z => if Z.ltb z 0 then (fun _ => None) else d_ret (Z.to_nat z)).
Definition d_bool : dec bool :=
  d_bind d_int (fun z => d_ret (negb (Z.eqb z 0))).

Fixpoint d_rep {A} (d : dec A) (n : nat) : dec (list A) :=
  match n with
  | O => d_ret []
  | S m => d_bind d (fun a => d_bind (d_rep d m) (fun r => d_ret (a :: r)))
  end.
Definition d_list {A} (d : dec A) : dec (list A) := d_bind d_nat (d_rep d).
Definition d_pair {A B} (da : dec A) (db : dec B) : dec (A * B) :=
  d_bind da (fun a => d_bind db (fun b => d_ret (a, b))).

Definition run_dec {A} (d : dec A) (l : list bytes) : option A :=
  match d l with Some (a, []) => Some a | _ => None end.

(* encoders *)
Definition e_int (z : Z) : bytes := itoa z.
Definition e_nat (n : nat) : bytes := itoa (Z.of_nat n).
Definition e_bool (b : bool) : bytes := if b then s2b "1" else s2b "0".
Definition e_list {A} (e : A -> list bytes) (l : list A) : list bytes :=
  e_nat (List.length l) :: flat_map e l.
Definition e_opt {A} (e : A -> list bytes) (o : option A) : list bytes :=
  match o with Some a => s2b "some" :: e a | None => [s2b "none"] end.
Definition e_res {A} (e : A -> list bytes) (r : res A) : list bytes :=
  match r with Ok a => s2b "ok" :: e a | Err => [s2b "err"] | Panic => [s2b "panic"] end.
