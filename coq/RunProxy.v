(* RunProxy.v — the "proxy" correspondence component: decode a whole-proxy case (configuration,
   peers, event list), run Proxy.proxy_step over the events, print per event what was sent
   where.  The same case is played against the real proxy started through startProxy. *)
From Coq Require Import List Ascii String ZArith Bool.
From Model Require Import Bytes Wire Uri Hdr Message Msg Proxy.
Import ListNotations.
Open Scope Z_scope.

(* the tree the model describes: which repairs it contains (see Proxy.fixes).  Flags not yet
   true here are defects the checks still have to exhibit before they are repaired. *)
Definition current_fixes : fixes :=
  {| fx_wiring := true; fx_udp_via_listener := true; fx_indialog_invite := true; fx_bracket_host := true; fx_resolved_key := true; fx_stale_pin := true |}.

Definition d_listen : dec listen_cfg :=
  dlet a := d_bytes in dlet u := d_int in dlet t := d_int in dlet bs := d_list d_bytes in
  dlet dyn := d_bool in dlet nr := d_bool in dlet dr := d_bool in dlet mr := d_bool in
  d_ret {| lc_addr := a; lc_udp := u; lc_tcp := t; lc_backends := bs; lc_dynamic := dyn;
           lc_no_received := nr; lc_def_route := dr; lc_must_rr := mr |}.
(* the keep token: the service's keepNextHopRoute text as the YAML has it, then optionally '|' and the value of
   the environment variable KEEP_NEXT_HOP_ROUTE the driver sets before startProxy (stored cases: "1" / "0") *)
Definition d_keep : dec bool :=
  dlet t := d_bytes in
  d_ret (match index_byte "|"%char t with
         | Some p => to_keep_next_hop_route (firstn p t) (skipn (S p) t)
         | None => to_keep_next_hop_route t []
         end).
Definition d_cfg : dec cfg :=
  dlet name := d_bytes in dlet keep := d_keep in dlet dt := d_int in
  dlet routes := d_list (d_pair d_bytes (d_pair d_bytes d_bytes)) in
  dlet hosts := d_list (d_pair d_bytes d_bytes) in
  dlet ls := d_list d_listen in
  d_ret {| c_name := name; c_keep_next_hop := keep; c_dialog_timeout := effective_dialog_timeout dt; c_routes := routes;
           c_hosts := hosts; c_listens := ls |}.
Definition d_event : dec event :=
  dlet k := d_bytes in
  if beq k (s2b "udp") then
    dlet li := d_nat in dlet ip := d_bytes in dlet port := d_int in dlet data := d_bytes in d_ret (EvUdp li ip port data)
  else if beq k (s2b "accept") then
    dlet li := d_nat in dlet ip := d_bytes in dlet port := d_int in d_ret (EvTcpAccept li ip port)
  else if beq k (s2b "data") then dlet c := d_nat in dlet data := d_bytes in d_ret (EvTcpData c data)
  else if beq k (s2b "close") then dlet c := d_nat in d_ret (EvTcpClose c)
  else if beq k (s2b "badd") then dlet li := d_nat in dlet a := d_bytes in d_ret (EvBackendAdd li a)
  else if beq k (s2b "brem") then dlet li := d_nat in dlet a := d_bytes in d_ret (EvBackendRemove li a)
  else (fun _ => None).

(* pc_waits: (event index, milliseconds the driver sleeps before that event): real time passing, for the histories that
   let dialog pins expire; absent in most cases *)
Record proxy_case := { pc_cfg : cfg; pc_tcp_listeners : list (bytes * Z); pc_udp_endpoints : list (bytes * Z);
                       pc_events : list event; pc_waits : list (nat * Z) }.
(* the optional tail of a case: "waits" n {index ms}.. (in judge mode the observation follows the case: it never
   starts with that word) *)
Definition d_waits : dec (list (nat * Z)) :=
  fun l => match l with
           | t :: r => if beq t (s2b "waits") then d_list (d_pair d_nat d_int) r else Some ([], l)
           | [] => Some ([], [])
           end.
(* cfg, then driver-only tokens (yaml text, dynamic host names), peers, events, optionally the waits *)
Definition d_proxy_case : dec proxy_case :=
  dlet c := d_cfg in
  dlet _ := d_bytes in dlet _ := d_list d_bytes in
  dlet tl := d_list (d_pair d_bytes d_int) in
  dlet ue := d_list (d_pair d_bytes d_int) in
  dlet evs := d_list d_event in
  dlet ws := d_waits in
  d_ret {| pc_cfg := c; pc_tcp_listeners := tl; pc_udp_endpoints := ue; pc_events := evs; pc_waits := ws |}.

(* the branch the proxy generates while handling event number e: fixed-width stand-in for the
   random one ("z9hG4bK" + 12 characters); the harness maps the real ones onto it *)
Definition pad_left (n : nat) (c : ascii) (s : bytes) : bytes := repeat c (n - List.length s) ++ s.
Definition branch_of (e : nat) : bytes :=
  s2b "z9hG4bK@@@@@@" ++ pad_left 6 "0"%char (itoa (Z.of_nat e)).

Definition label_of (d : dest) : bytes :=
  match d with
  | DUdp ip port => s2b "udp:" ++ ip ++ ":"%char :: itoa port
  | DConn c => s2b "conn:" ++ itoa (Z.of_nat c)
  | DDial ip port c => s2b "dial:" ++ ip ++ ":"%char :: itoa port
  end.
Definition visible (ue : list (bytes * Z)) (o : output) : bool :=
  match fst o with
  | DUdp ip port => existsb (fun '(i, p) => beq i ip && Z.eqb p port) ue
  | _ => true
  end.
Definition e_output (o : output) : list bytes :=
  match fst o with
  | DDial _ _ c => [label_of (fst o); e_nat c]
  | _ => [label_of (fst o); snd o]
  end.
Definition newly_closed (before after : list conn) : list nat :=
  flat_map (fun c => if (negb (cn_open c) && conn_open before (cn_id c))%bool then [cn_id c] else []) after.
(* what the driver reports are the connections the PROXY closed; the one its own close event names is not among them *)
Definition closed_by_proxy (ev : event) (before after : list conn) : list nat :=
  match ev with
  | EvTcpClose c => filter (fun n => negb (Nat.eqb n c)) (newly_closed before after)
  | _ => newly_closed before after
  end.

Definition ms : Z := 1000000.
(* the instant of event e (ns): one millisecond per event, plus everything the driver slept before it *)
Definition waited (ws : list (nat * Z)) (e : nat) : Z :=
  fold_left (fun z iw => if Nat.leb (fst iw) e then z + snd iw else z) ws 0.
Definition time_of (ws : list (nat * Z)) (e : nat) : Z := (Z.of_nat e + waited ws e) * ms.
Fixpoint run_events (c : cfg) (ue : list (bytes * Z)) (ws : list (nat * Z)) (e : nat) (st : state) (evs : list event) : list bytes :=
  match evs with
  | [] => []
  | ev :: r =>
      match proxy_step current_fixes c (time_of ws e) (branch_of e) st ev with
      | Ok (st', outs) =>
          e_list e_output (filter (visible ue) outs)
          ++ e_list (fun n => [e_nat n]) (closed_by_proxy ev (st_conns st) (st_conns st'))
          ++ run_events c ue ws (S e) st' r
      | Err => [s2b "err"]
      | Panic => [s2b "panic"]
      end
  end.

Definition run_proxy (args : list bytes) : list bytes :=
  match run_dec d_proxy_case args with
  | Some pc => run_events (pc_cfg pc) (pc_udp_endpoints pc) (pc_waits pc) 0 (init_state (pc_cfg pc) 0 (pc_tcp_listeners pc)) (pc_events pc)
  | None => [s2b "decode-error"]
  end.
