(* SpecC16.v — C16 as an executable judge over a GROUP of messages.  Each message comes with
   the abstract reading the generator gave it: Call-ID and the two (tag, URI-core) endpoint
   pairs (SIP URIs without parameters and headers), or "lacks a tag"; the observation is the
   dialog identifier the implementation computed for each (None = no dialog). *)
From Coq Require Import List Ascii String ZArith Bool Arith.
From Model Require Import Bytes Wire.
Import ListNotations.

Record c16_msg := { cm_has : bool;            (* both tags present *)
                    cm_callid : bytes;
                    cm_ta : bytes; cm_ua : bytes;   (* From side *)
                    cm_tb : bytes; cm_ub : bytes }. (* To side *)

Definition c16_swap (m : c16_msg) : c16_msg :=
  {| cm_has := cm_has m; cm_callid := cm_callid m;
     cm_ta := cm_tb m; cm_ua := cm_ub m; cm_tb := cm_ta m; cm_ub := cm_ua m |}.
Definition c16_aligned_eq (a b : c16_msg) : bool :=
  beq (cm_callid a) (cm_callid b) && beq (cm_ta a) (cm_ta b) && beq (cm_ua a) (cm_ua b) &&
  beq (cm_tb a) (cm_tb b) && beq (cm_ub a) (cm_ub b).
(* same Call-ID and the same two endpoint pairs, whichever is in From *)
Definition c16_same (a b : c16_msg) : bool := c16_aligned_eq a b || c16_aligned_eq a (c16_swap b).
Definition b2n (b : bool) : nat := if b then 0 else 1.
Definition c16_diff (a b : c16_msg) : nat :=
  b2n (beq (cm_callid a) (cm_callid b)) + b2n (beq (cm_ta a) (cm_ta b)) + b2n (beq (cm_ua a) (cm_ua b)) +
  b2n (beq (cm_tb a) (cm_tb b)) + b2n (beq (cm_ub a) (cm_ub b)).
(* b is a with exactly one of Call-ID / a tag / a URI changed (in either orientation) *)
Definition c16_one_change (a b : c16_msg) : bool :=
  Nat.eqb (c16_diff a b) 1 || Nat.eqb (c16_diff a (c16_swap b)) 1.

Definition oid_eqb (x y : option bytes) : bool :=
  match x, y with Some a, Some b => beq a b | _, _ => false end.

(* verdict for one ordered pair: 0 ok, 1 same dialog but different ids, 2 one change but equal ids *)
Definition c16_pair (a b : c16_msg) (ia ib : option bytes) : nat :=
  if negb (cm_has a && cm_has b) then 0
  else if c16_same a b then (if oid_eqb ia ib then 0 else 1)
  else if c16_one_change a b then (if oid_eqb ia ib then 2 else 0)
  else 0.
(* a message lacking a tag has no dialog, one with both tags has one *)
Definition c16_single (a : c16_msg) (ia : option bytes) : bool :=
  match ia with Some _ => cm_has a | None => negb (cm_has a) end.

Fixpoint c16_scan_row (i j : nat) (a : c16_msg) (ia : option bytes) (rest : list (c16_msg * option bytes))
  : option (nat * nat * nat) :=
  match rest with
  | [] => None
  | (b, ib) :: r => match c16_pair a b ia ib with
                    | O => c16_scan_row i (S j) a ia r
                    | v => Some (i, j, v)
                    end
  end.
Fixpoint c16_scan (i : nat) (l : list (c16_msg * option bytes)) : option (nat * nat * nat) :=
  match l with
  | [] => None
  | (a, ia) :: r =>
      if negb (c16_single a ia) then Some (i, i, 3)
      else match c16_scan_row i (S i) a ia r with
           | Some x => Some x
           | None => c16_scan (S i) r
           end
  end.
(* None = the property holds on this group; Some (i, j, why) = first offending pair *)
Definition judge_C16 (l : list (c16_msg * option bytes)) : option (nat * nat * nat) := c16_scan 0 l.

Definition d_c16_msg : dec c16_msg :=
  dlet h := d_bool in dlet c := d_bytes in dlet ta := d_bytes in dlet ua := d_bytes in
  dlet tb := d_bytes in dlet ub := d_bytes in
  d_ret {| cm_has := h; cm_callid := c; cm_ta := ta; cm_ua := ua; cm_tb := tb; cm_ub := ub |}.
