(* SpecRx.v — executable judges for the byte-level receive path (C10, C11, the parse part of C08).
   They look only at the input bytes and at what the implementation reported, and they use their
   own minimal reading of SIP framing (one pass over the bytes: lines end at LF, one CR before it
   is dropped; name = text before the first ':'; the body is Content-Length bytes) — no code of
   the model's reader or parser (Bufio.v, Message.parse_message) is used here.

   C11: the messages extracted from a TCP stream are exactly the reference messages of the
        concatenated bytes, in order, whatever the segmentation and the reader window.
   C10: what is decoded for a datagram is the reference reading of THAT datagram's bytes; a
        datagram whose header section is incomplete or whose Content-Length exceeds the bytes
        present is discarded.
   C08 (parse part): no panic, no hang, no allocation out of proportion. *)
From Coq Require Import List Ascii String ZArith Bool Arith.
From Model Require Import Bytes Wire.
Import ListNotations.
Local Open Scope nat_scope.

(* linear reversal (List.rev is quadratic when executed) *)
Definition rv {A} (l : list A) : list A := rev_append l [].

Definition c_lf : ascii := ascii_of_nat 10.
Definition c_cr : ascii := ascii_of_nat 13.

(* what is observed of one decoded message *)
Record omsg := { o_kind : bytes; o_a : bytes; o_b : bytes; o_c : bytes;
                 o_headers : list (bytes * bytes); o_body : bytes }.

(* one line: the bytes before the next LF (a CR just before it dropped), and what follows.
   None: no LF any more (the line is incomplete) *)
Fixpoint cut_line (s : bytes) (acc : bytes) : option (bytes * bytes) :=
  match s with
  | [] => None
  | c :: r => if Ascii.eqb c c_lf
              then Some (rv (match acc with
                              | x :: a => if Ascii.eqb x c_cr then a else acc
                              | [] => []
                              end), r)
              else cut_line r (c :: acc)
  end.

Fixpoint skip_blank (s : bytes) : bytes :=
  match s with
  | c :: r => if is_space c then skip_blank r else s
  | [] => []
  end.
(* surrounding blanks of a header value: Unicode white space (the six ASCII blanks and the UTF-8
   encodings of U+0085, U+00A0, U+1680, U+2000..U+200A, U+2028, U+2029, U+202F, U+205F, U+3000),
   stripped from the left, then from the right; an incomplete or invalid sequence is not a blank *)
Definition strip (s : bytes) : bytes := rv (trim_left_go_r (rv (trim_left_go s))).

(* blank-separated words *)
Fixpoint words_aux (s : bytes) (cur : bytes) : list bytes :=
  match s with
  | [] => match cur with [] => [] | _ => [rv cur] end
  | c :: r => if is_space c
              then match cur with [] => words_aux r [] | _ => rv cur :: words_aux r [] end
              else words_aux r (c :: cur)
  end.
Fixpoint glue (l : list bytes) : bytes :=
  match l with
  | [] => []
  | [a] => a
  | a :: r => a ++ " "%char :: glue r
  end.

Definition sip_slash : bytes := s2b "SIP/".
Fixpoint starts (p s : bytes) : bool :=
  match p, s with
  | [], _ => true
  | x :: p', y :: s' => Ascii.eqb x y && starts p' s'
  | _, [] => false
  end.

(* kind, three fields; None: not a start line the proxy accepts *)
Definition ref_start (line : bytes) : option (bytes * bytes * bytes * bytes) :=
  let ws := words_aux line [] in
  if starts sip_slash line then
    match ws with
    | v :: c :: (_ :: _) as reason =>
        match atoi c with Some _ => Some (s2b "resp", v, c, glue reason) | None => None end
    | _ => None
    end
  else
    match ws with
    | [m; u; v] =>
        (* a sip:/sips: URI always decodes; anything else is kept as an opaque absolute URI *)
        Some (s2b "req", m, u, v)
    | _ => None
    end.

Fixpoint cut_colon (s : bytes) (acc : bytes) : option (bytes * bytes) :=
  match s with
  | [] => None
  | c :: r => if Ascii.eqb c ":"%char then Some (rv acc, strip r) else cut_colon r (c :: acc)
  end.

(* header lines up to the empty line; fuel = number of bytes *)
Fixpoint ref_headers (fuel : nat) (s : bytes) (acc : list (bytes * bytes)) : option (list (bytes * bytes) * bytes) :=
  match fuel with
  | O => None
  | S f =>
      match cut_line s [] with
      | None => None
      | Some ([], rest) => Some (rv acc, rest)
      | Some (line, rest) =>
          match cut_colon line [] with
          | Some nv => ref_headers f rest (nv :: acc)
          | None => None
          end
      end
  end.

Definition is_clen (name : bytes) : bool :=
  let n := to_lower name in (beq n (s2b "content-length") || beq n (s2b "l"))%bool.
Fixpoint declared_length (hs : list (bytes * bytes)) : option Z :=
  match hs with
  | [] => None
  | (n, v) :: r => if is_clen n then atoi v else declared_length r
  end.

(* reference reading of the first message of [s]: the message and the bytes after it *)
Definition ref_message (s : bytes) : option (omsg * bytes) :=
  match cut_line (skip_blank s) [] with
  | None => None
  | Some (l0, rest) =>
      match ref_start l0 with
      | None => None
      | Some (k, a, b, c) =>
          match ref_headers (S (List.length rest)) rest [] with
          | None => None
          | Some (hs, rest1) =>
              match declared_length hs with
              | None => None
              | Some cl =>
                  if (Z.ltb cl 0 || Z.ltb (Z.of_nat (List.length rest1)) cl)%bool then None
                  else let n := Z.to_nat cl in
                       Some ({| o_kind := k; o_a := a; o_b := b; o_c := c; o_headers := hs;
                                o_body := firstn n rest1 |}, skipn n rest1)
              end
          end
      end
  end.

Fixpoint ref_stream (fuel : nat) (s : bytes) : list omsg :=
  match fuel with
  | O => []
  | S f => match ref_message s with
           | Some (m, rest) => m :: ref_stream f rest
           | None => []
           end
  end.

(* ---- comparing an observed message with the reference ---- *)
Fixpoint same_pairs (a b : list (bytes * bytes)) : bool :=
  match a, b with
  | [], [] => true
  | (n1, v1) :: a', (n2, v2) :: b' => beq n1 n2 && beq v1 v2 && same_pairs a' b'
  | _, _ => false
  end.
Definition same_code (x y : bytes) : bool :=
  match atoi x, atoi y with Some p, Some q => Z.eqb p q | _, _ => false end.
Definition same_omsg (r o : omsg) : bool :=
  beq (o_kind r) (o_kind o) && beq (o_a r) (o_a o) &&
  (if beq (o_kind r) (s2b "resp") then same_code (o_b r) (o_b o) else beq (o_b r) (o_b o)) &&
  beq (o_c r) (o_c o) && same_pairs (o_headers r) (o_headers o) && beq (o_body r) (o_body o).
Fixpoint same_omsgs (a b : list omsg) : bool :=
  match a, b with
  | [], [] => true
  | x :: a', y :: b' => same_omsg x y && same_omsgs a' b'
  | _, _ => false
  end.

(* ---- C11 ---- *)
(* [chunks]: the segmentation the stream arrived in; [obs]: the messages the implementation
   delivered, [fin]: how its loop ended *)
Definition judge_C11 (chunks : list bytes) (obs : list omsg) (fin : bytes) : bool :=
  let s := List.concat chunks in
  beq fin (s2b "err") && same_omsgs (ref_stream (S (List.length s)) s) obs.

(* ---- C10 ---- *)
Inductive uop := ORecv (d : bytes) | OParse | ODirty (pat : bytes).
(* the datagrams in arrival order, cut to the receive buffer, and one expected result per
   effective parse step *)
Fixpoint c10_expected (asize : nat) (q : list bytes) (ops : list uop) : list (option omsg) :=
  match ops with
  | [] => []
  | ORecv d :: r => c10_expected asize (q ++ [firstn asize d]) r
  | OParse :: r => match q with
                   | [] => c10_expected asize q r
                   | d :: q' => (match ref_message d with Some (m, _) => Some m | None => None end)
                                :: c10_expected asize q' r
                   end
  | ODirty _ :: r => c10_expected asize q r
  end.
Fixpoint same_results (e o : list (option omsg)) : bool :=
  match e, o with
  | [], [] => true
  | None :: e', None :: o' => same_results e' o'
  | Some x :: e', Some y :: o' => same_omsg x y && same_results e' o'
  | _, _ => false
  end.
Definition judge_C10 (asize : nat) (ops : list uop) (obs : list (option omsg)) : bool :=
  same_results (c10_expected asize [] ops) obs.

(* pool exclusivity on an observed Alloc/Free run: [ids] are the identities Alloc returned, in
   order; a free names the position (oldest first) in the list of buffers currently held *)
Inductive pop := QAlloc | QFree (k : nat).
Fixpoint drop_nth {A} (k : nat) (l : list A) : option (A * list A) :=
  match l, k with
  | [], _ => None
  | x :: r, O => Some (x, r)
  | x :: r, S k' => match drop_nth k' r with Some (y, r') => Some (y, x :: r') | None => None end
  end.
Definition mem_nat (x : nat) (l : list nat) : bool := existsb (Nat.eqb x) l.
Fixpoint judge_pool_run (ops : list pop) (ids : list nat) (held pooled seen : list nat) : bool :=
  match ops with
  | [] => match ids with [] => true | _ => false end
  | QAlloc :: r =>
      match ids with
      | [] => false
      | id :: ids' =>
          (* never something that is still held; either brand new or previously given back *)
          negb (mem_nat id held) && (negb (mem_nat id seen) || mem_nat id pooled) &&
          judge_pool_run r ids' (held ++ [id]) (filter (fun x => negb (Nat.eqb x id)) pooled) (id :: seen)
      end
  | QFree k :: r =>
      match drop_nth k held with
      | Some (id, held') => judge_pool_run r ids held' (id :: pooled) seen
      | None => false
      end
  end.
Definition judge_C10_pool (ops : list pop) (ids : list nat) : bool := judge_pool_run ops ids [] [] [].

(* ---- C08, parse part: the verdict tokens of a run ---- *)
Definition judge_C08_rx (fin : bytes) (balloon : bool) : bool :=
  negb (beq fin (s2b "panic")) && negb (beq fin (s2b "hang")) && negb balloon.
