(* Uri.v — key_value.go, generic_param.go, sip_uri.go, absolute_uri.go, addr_spec.go,
   name_addr.go: one parse/print pair per Go Parse*/String pair, same order of
   IndexByte/Split calls, same ignored errors. *)
From Coq Require Import List Ascii String ZArith Bool.
From Model Require Import Bytes.
Import ListNotations.
Open Scope Z_scope.

(* ---- KeyValue ---- *)
Record kv := { k_key : bytes; k_val : bytes }.
(* KeyValue.Write: key, then "=value" only when the value is non-empty *)
Definition kv_print (p : kv) : bytes :=
  match k_val p with [] => k_key p | v => k_key p ++ "="%char :: v end.

(* split "name=value" at the first '=' ; no '=' -> (s, "") *)
Definition kv_split (s : bytes) : kv :=
  match index_byte "="%char s with
  | None => {| k_key := s; k_val := [] |}
  | Some pos => {| k_key := firstn pos s; k_val := skipn (S pos) s |}
  end.

(* ParseGenericParam: the empty string is an error *)
Definition parse_generic_param (s : bytes) : res kv :=
  match s with [] => Err | _ => Ok (kv_split s) end.

Fixpoint parse_generic_params (l : list bytes) : res (list kv) :=
  match l with
  | [] => Ok []
  | s :: r => let! p := parse_generic_param s in
              let! ps := parse_generic_params r in Ok (p :: ps)
  end.

Fixpoint kv_get (name : bytes) (l : list kv) : option bytes :=
  match l with
  | [] => None
  | p :: r => if beq (k_key p) name then Some (k_val p) else kv_get name r
  end.
(* SetParam: overwrite the first entry with that key, else append *)
Fixpoint kv_set (name value : bytes) (l : list kv) : list kv :=
  match l with
  | [] => [{| k_key := name; k_val := value |}]
  | p :: r => if beq (k_key p) name then {| k_key := k_key p; k_val := value |} :: r
              else p :: kv_set name value r
  end.
Definition kv_has (name : bytes) (l : list kv) : bool :=
  match kv_get name l with Some _ => true | None => false end.

Definition print_params (sep : ascii) (l : list kv) : bytes :=
  flat_map (fun p => sep :: kv_print p) l.

(* ---- SIPURI ---- *)
Record sip_uri := { u_scheme : bytes; u_user : bytes; u_password : bytes; u_host : bytes;
                    u_port : Z; u_params : list kv; u_headers : list kv }.

(* parseUriParameters: every ';'-separated piece is kept, with or without value *)
Definition parse_uri_parameters (s : bytes) : list kv := map kv_split (split_byte ";"%char s).

(* the pre-fix code stopped (error ignored by the caller) at the first valueless parameter
   other than "lr" *)
Fixpoint parse_uri_parameters_legacy_aux (l : list bytes) : list kv :=
  match l with
  | [] => []
  | p :: r => match index_byte "="%char p with
              | None => if beq p (s2b "lr") then {| k_key := p; k_val := [] |} :: parse_uri_parameters_legacy_aux r
                        else []
              | Some _ => kv_split p :: parse_uri_parameters_legacy_aux r
              end
  end.
Definition parse_uri_parameters_legacy (s : bytes) : list kv :=
  parse_uri_parameters_legacy_aux (split_byte ";"%char s).

(* parseUriHeader: stops (error ignored) at the first piece without '=' *)
Fixpoint parse_uri_headers_aux (l : list bytes) : list kv :=
  match l with
  | [] => []
  | p :: r => match index_byte "="%char p with
              | None => []
              | Some _ => kv_split p :: parse_uri_headers_aux r
              end
  end.
Definition parse_uri_headers (s : bytes) : list kv := parse_uri_headers_aux (split_byte "&"%char s).

(* parseHostPort: port text through Atoi with the error ignored *)
Definition parse_host_port (s : bytes) : bytes * Z :=
  match index_byte ":"%char s with
  | None => (s, 0)
  | Some pos => (firstn pos s, atoi_val (skipn (S pos) s))
  end.

(* parseUserInfo *)
Definition parse_user_info (s : bytes) : bytes * bytes :=
  match index_byte ":"%char s with
  | None => (s, [])
  | Some pos => (firstn pos s, skipn (S pos) s)
  end.

Definition parse_sip_uri_with (pp : bytes -> list kv) (uri : bytes) : res sip_uri :=
  let go (scheme s : bytes) :=
    let '(s1, hdrs) := match index_byte "?"%char s with
                       | Some pos => (firstn pos s, parse_uri_headers (skipn (S pos) s))
                       | None => (s, []) end in
    let '(s2, params) := match index_byte ";"%char s1 with
                         | Some pos => (firstn pos s1, pp (skipn (S pos) s1))
                         | None => (s1, []) end in
    let '(user, pw, hp) := match index_byte "@"%char s2 with
                           | Some pos => let '(u, p) := parse_user_info (firstn pos s2) in
                                         (u, p, skipn (S pos) s2)
                           | None => ([], [], s2) end in
    let '(h, port) := parse_host_port hp in
    Ok {| u_scheme := scheme; u_user := user; u_password := pw; u_host := h; u_port := port;
          u_params := params; u_headers := hdrs |} in
  if has_prefix (s2b "sip:") uri then go (s2b "sip") (skipn 4 uri)
  else if has_prefix (s2b "sips:") uri then go (s2b "sips") (skipn 5 uri)
  else Err.
Definition parse_sip_uri := parse_sip_uri_with parse_uri_parameters.
Definition parse_sip_uri_legacy := parse_sip_uri_with parse_uri_parameters_legacy.

(* SIPURI._Write *)
Definition sip_uri_print_with (with_params with_headers : bool) (u : sip_uri) : bytes :=
  u_scheme u ++ ":"%char ::
  (match u_user u with
   | [] => []
   | usr => match u_password u with
            | [] => usr ++ [ "@"%char ]
            | pw => usr ++ ":"%char :: pw ++ [ "@"%char ]
            end
   end) ++
  (if Z.eqb (u_port u) 0 then u_host u else u_host u ++ ":"%char :: itoa (u_port u)) ++
  (if with_params then print_params ";"%char (u_params u) else []) ++
  (if with_headers then
     match u_headers u with
     | [] => []
     | h :: r => "?"%char :: k_key h ++ "="%char :: k_val h ++
                 flat_map (fun p => "&"%char :: k_key p ++ "="%char :: k_val p) r
     end
   else []).
Definition sip_uri_print := sip_uri_print_with true true.

Definition sip_uri_transport (u : sip_uri) : bytes :=
  match kv_get (s2b "transport") (u_params u) with Some t => t | None => s2b "udp" end.
Definition sip_uri_get_port (u : sip_uri) : Z :=
  if negb (Z.eqb (u_port u) 0) then u_port u
  else if beq (sip_uri_transport u) (s2b "tls") then 5061 else 5060.

(* ---- AddrSpec ---- *)
Inductive addr_spec := ASip (u : sip_uri) | AAbs (s : bytes).

Definition parse_addr_spec_with (pp : bytes -> list kv) (s : bytes) : res addr_spec :=
  if (has_prefix (s2b "sip:") s || has_prefix (s2b "sips:") s)%bool
  then rmap ASip (parse_sip_uri_with pp s)
  else Ok (AAbs s).
Definition parse_addr_spec := parse_addr_spec_with parse_uri_parameters.
Definition addr_spec_print (a : addr_spec) : bytes :=
  match a with ASip u => sip_uri_print u | AAbs s => s end.

(* ---- NameAddr ---- *)
Record name_addr := { na_display : bytes; na_addr : addr_spec }.

Definition parse_name_addr (s : bytes) : res name_addr :=
  match index_byte "<"%char s, index_byte ">"%char s with
  | Some p1, Some p2 =>
      if Nat.ltb p2 p1 then Err
      else let! a := parse_addr_spec (slice s (S p1) p2) in
           Ok {| na_display := firstn p1 s; na_addr := a |}
  | _, _ => Err
  end.
Definition name_addr_print (n : name_addr) : bytes :=
  na_display n ++ "<"%char :: addr_spec_print (na_addr n) ++ [ ">"%char ].
