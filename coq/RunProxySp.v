(* RunProxySp.v — the "proxysp" correspondence component: spirals.  A request whose next hop is one of the proxy's OWN
   UDP sockets (two Route entries that both designate the proxy: the first is consumed, the second becomes the next
   hop; or an entry naming another listen entry of the same service) is sent there like to any other peer, arrives
   as a datagram from the sending Proxy object's local address, and is processed again.  Nothing new is modelled: the
   runner feeds such a datagram back into Proxy.proxy_step (same instant, same branch stand-in: the driver maps every
   branch the proxy makes during one event to that event's stand-in), and reports what finally leaves the proxy.

   The source port of that datagram is the OS-chosen port of the proxy's own client socket; the model uses 0 and the
   driver rewrites an `rport=<digits>` that was stamped together with `received=<a listener address>` to `rport=0`. *)
From Coq Require Import List Ascii String ZArith Bool.
From Model Require Import Bytes Wire Uri Hdr Message Msg Proxy RunProxy.
Import ListNotations.
Open Scope Z_scope.

(* the listen entry whose UDP socket is ip:port *)
Fixpoint own_udp_from (ls : list listen_cfg) (i : nat) (ip : bytes) (port : Z) : option nat :=
  match ls with
  | [] => None
  | lc :: r => if (beq (lc_addr lc) ip && Z.eqb (lc_udp lc) port && Z.ltb 0 port)%bool then Some i
               else own_udp_from r (S i) ip port
  end.
Definition own_udp (c : cfg) (ip : bytes) (port : Z) : option nat := own_udp_from (c_listens c) 0 ip port.

(* [sender] = the listen entry whose Proxy object sent [outs]: its address is the source of what it sends.
   Outputs that go back into the proxy are replaced, in place, by what the proxy does with them. *)
Fixpoint feed (fuel : nat) (c : cfg) (now : Z) (br : bytes) (sender : nat) (st : state) (outs : list output)
  : res (state * list output) :=
  match fuel with
  | O => Ok (st, outs)
  | S f =>
      match outs with
      | [] => Ok (st, [])
      | o :: r =>
          let again :=
            match fst o with
            | DUdp ip port =>
                match own_udp c ip port, nth_opt (c_listens c) sender with
                | Some li', Some lcs => Some (li', lc_addr lcs)
                | _, _ => None
                end
            | _ => None
            end in
          match again with
          | None =>
              match feed f c now br sender st r with
              | Ok (st', r') => Ok (st', o :: r')
              | Err => Err
              | Panic => Panic
              end
          | Some (li', src) =>
              match proxy_step current_fixes c now br st (EvUdp li' src 0 (snd o)) with
              | Ok (st1, outs1) =>
                  match feed f c now br li' st1 outs1 with
                  | Ok (st2, outs2) =>
                      match feed f c now br sender st2 r with
                      | Ok (st3, r') => Ok (st3, outs2 ++ r')
                      | Err => Err
                      | Panic => Panic
                      end
                  | Err => Err
                  | Panic => Panic
                  end
              | Err => Err
              | Panic => Panic
              end
          end
      end
  end.

Definition ev_sender (ev : event) : nat := match ev with EvUdp li _ _ _ => li | _ => O end.

Fixpoint run_events_sp (c : cfg) (ue : list (bytes * Z)) (ws : list (nat * Z)) (e : nat) (st : state) (evs : list event) : list bytes :=
  match evs with
  | [] => []
  | ev :: r =>
      match proxy_step current_fixes c (time_of ws e) (branch_of e) st ev with
      | Ok (st1, outs1) =>
          match feed 8 c (time_of ws e) (branch_of e) (ev_sender ev) st1 outs1 with
          | Ok (st', outs) =>
              e_list e_output (filter (visible ue) outs)
              ++ e_list (fun n => [e_nat n]) (closed_by_proxy ev (st_conns st) (st_conns st'))
              ++ run_events_sp c ue ws (S e) st' r
          | Err => [s2b "err"]
          | Panic => [s2b "panic"]
          end
      | Err => [s2b "err"]
      | Panic => [s2b "panic"]
      end
  end.

Definition run_proxysp (args : list bytes) : list bytes :=
  match run_dec d_proxy_case args with
  | Some pc => run_events_sp (pc_cfg pc) (pc_udp_endpoints pc) (pc_waits pc) 0 (init_state (pc_cfg pc) 0 (pc_tcp_listeners pc)) (pc_events pc)
  | None => [s2b "decode-error"]
  end.

(* without a datagram addressed to an own socket the runner is RunProxy's (feed leaves such outputs alone) *)
Lemma feed_none fuel c now br sender st outs :
  (forall o ip port, In o outs -> fst o = DUdp ip port -> own_udp c ip port = None) ->
  feed fuel c now br sender st outs = Ok (st, outs).
Proof.
  revert outs; induction fuel as [|f IH]; intros outs H; [reflexivity|].
  destruct outs as [|o r]; [reflexivity|]. cbn [feed].
  assert (Hr : forall o' ip port, In o' r -> fst o' = DUdp ip port -> own_udp c ip port = None)
    by (intros o' ip port Hin; apply H; right; exact Hin).
  destruct (fst o) as [ip port| |] eqn:E.
  - rewrite (H o ip port (or_introl eq_refl) E). rewrite (IH r Hr). reflexivity.
  - rewrite (IH r Hr). reflexivity.
  - rewrite (IH r Hr). reflexivity.
Qed.
