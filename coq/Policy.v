(* Policy.v -- the synchronisation POLICY of the proxy, written by hand, and a boolean checker
   that decides it over the FACTS in gen/Accesses.v (regenerated from /repo on every run by
   tools/locktab; the translator is in the trusted base, its patterns are listed in its
   header).  Nothing here is specific to one revision of /repo except the policy table.

   Disciplines (per struct field; locations are (object, field), see proofs/C09.v):
     LockedOwn m   every access outside constructors holds mutex m OF THE SAME OBJECT: m is
                   lexically held at the site with the same receiver text as the access, or
                   is held at every call site of the enclosing function, transitively
                   (must-hold, computed below; the receiver is followed through the call)
     LockedBy m    as LockedOwn, for a mutex of another, unique object (the process-wide
                   DynamicHostResolver guards the AddressWithCallback entries it owns)
     ConfinedTo r  every goroutine root that reaches the site through the call graph is r
                   (or "main": start-up, before the listeners exist)
     InitOnly      written only in constructors, or by functions reachable from root "main"
                   only, or before the go statement of the enclosing function that starts the
                   readers (Start methods)
     HandedOff cs  objects of the message tree: owned by one goroutine at a time and passed
                   over the channels cs; every root reaching a site must be an endpoint
                   (sender or receiver root) of one of these channels
     Atomic        every access outside constructors is an operand of a sync/atomic call
   A field without entry must never be written outside a constructor (C09_policy_complete:
   every field written outside a constructor is classified, so new shared state fails the
   check instead of escaping it). *)
From Coq Require Import List String Bool Arith NArith DecimalString.
From Model.gen Require Import Accesses.
Import ListNotations.
Open Scope string_scope.

Inductive disc : Type :=
| LockedOwn (m : string)
| LockedBy (m : string)
| ConfinedTo (root : string)
| InitOnly
| HandedOff (chans : list string)
| Atomic.

Definition loop := "Proxy.receiveAndProcessMessage".
Definition msg_chans := ["Proxy.msgChannel"; "UDPServerTransport.msgParseChannel"].

(* ------------------------------------------------------------------ THE POLICY *)
Definition field_policy : list (string * string * disc) :=
  [ (* shared between goroutines: guarded by the mutex embedded in the same struct *)
    ("SelfLearnRoute", "route", LockedOwn "SelfLearnRoute");   (* shared by the loops of ALL listeners of a service (A15) *)
    ("ByteArrayPool", "pool", LockedOwn "ByteArrayPool");
    ("RoundRobinBackend", "index", LockedOwn "RoundRobinBackend");
    ("RoundRobinBackend", "backends", LockedOwn "RoundRobinBackend");
    ("RoundRobinBackend", "backendMap", LockedOwn "RoundRobinBackend");
    ("BackendChangeListenerMgr", "listeners", LockedOwn "BackendChangeListenerMgr");
    ("ClientTransportMgr", "transports", LockedOwn "ClientTransportMgr");
    ("ClientTransportMgr", "lastCleanTime", LockedOwn "ClientTransportMgr");
    ("DynamicHostResolver", "hostIPs", LockedOwn "DynamicHostResolver");
    ("TCPBackend", "conn", LockedOwn "TCPBackend");             (* loop (Send) vs resolver goroutine (Close) (B4) *)
    (* entries of the resolver table: guarded by the resolver's mutex *)
    ("AddressWithCallback", "addrs", LockedBy "DynamicHostResolver");
    ("AddressWithCallback", "failed", LockedBy "DynamicHostResolver");
    ("AddressWithCallback", "callbacks", LockedBy "DynamicHostResolver");  (* (B4) *)
    (* flags *)
    ("DynamicHostResolver", "stop", Atomic);
    ("TCPServerTransport", "exit", Atomic);                      (* receive goroutine vs loop (B4) *)
    (* state of ONE listener: only its message loop touches it (one loop per Proxy, started
       once in NewProxy; each of these objects belongs to exactly one Proxy) *)
    ("Proxy", "backends", ConfinedTo loop);
    ("DialogBasedBackend", "backends", ConfinedTo loop);
    ("DialogBasedBackend", "nextCleanTime", ConfinedTo loop);
    ("ProxyItem", "transports", ConfinedTo loop);
    ("FailOverClientTransport", "primary", ConfinedTo loop);
    ("FailOverClientTransport", "secondary", ConfinedTo loop);
    ("TCPClientTransport", "conn", ConfinedTo loop);
    ("UDPClientTransport", "conn", ConfinedTo loop);
    (* configured at start-up / before the readers are started *)
    ("Proxy", "items", InitOnly);
    ("PreConfigRoute", "dests", InitOnly);
    ("PreConfigRoute", "items", InitOnly);
    ("PreConfigHostResolver", "hostIPs", InitOnly);
    ("compactHeaderNames", "compactHeaders", InitOnly);
    ("UDPServerTransport", "conn", InitOnly);
    ("UDPServerTransport", "msgHandler", InitOnly);
    ("TCPServerTransport", "msgHandler", InitOnly) ].

(* the message tree: parsed by a receive goroutine, handed to the loop over msgChannel *)
Definition struct_policy : list (string * disc) :=
  map (fun s => (s, HandedOff msg_chans))
    ["Message"; "RawMessage"; "SizedByteArray"; "Header"; "KeyValue"; "GenericParam"; "Via"; "ViaParam";
     "SIPURI"; "AbsoluteURI"; "AddrSpec"; "NameAddr"; "FromSpec"; "From"; "To"; "CSeq"; "Route"; "RouteParam";
     "RecordRoute"; "RecRoute"; "ClientTransaction"; "ServerTransaction"].

(* Assumption of the lock-ORDER check only: an object of these types never contains /
   registers an object of the same type (CreateRoundRobinBackend and hostIPChanged add
   UDPBackend and TCPBackend only; AddBackendChangeListener is only ever given a *Proxy), so an
   INTERFACE call made by a method of T does not re-enter a method of T. *)
Definition no_self_nesting : list string := ["RoundRobinBackend"; "BackendChangeListenerMgr"].
Definition prefix_of (p s : string) : bool := String.prefix p s.
Definition excluded_call (c : callsite) : bool :=
  (c_kind c =? "iface") &&
  existsb (fun t => prefix_of (t ++ ".") (c_caller c) && prefix_of (t ++ ".") (c_callee c)) no_self_nesting.

(* ------------------------------------------------------------------ finite sets / tables of strings *)
Definition smem (x : string) (l : list string) : bool := existsb (String.eqb x) l.
Definition sadd (x : string) (l : list string) : list string := if smem x l then l else x :: l.
Definition sunion (a b : list string) : list string := fold_right sadd b a.
Definition ssubset (a b : list string) : bool := forallb (fun x => smem x b) a.

Definition table := list (string * list string).
Fixpoint tget (t : table) (k : string) : list string :=
  match t with
  | [] => []
  | (k', v) :: r => if k =? k' then v else tget r k
  end.
Fixpoint tadd (t : table) (k : string) (vs : list string) : table :=
  match t with
  | [] => [(k, vs)]
  | (k', v) :: r => if k =? k' then (k', sunion vs v) :: r else (k', v) :: tadd r k vs
  end.
Definition tsize (t : table) : nat := fold_left (fun n kv => (n + List.length (snd kv))%nat) t 0%nat.

(* one pass: for every edge (src, dst): S(dst) := S(dst) U S(src) *)
Definition prop_step (edges : list (string * string)) (t : table) : table :=
  fold_left (fun t e => match tget t (fst e) with [] => t | vs => tadd t (snd e) vs end) edges t.
Fixpoint prop_iter (fuel : nat) (edges : list (string * string)) (t : table) : table :=
  match fuel with
  | 0 => t
  | S n => let t' := prop_step edges t in if Nat.eqb (tsize t') (tsize t) then t' else prop_iter n edges t'
  end.
(* closed under the edges: what makes a propagated table SOUND (checked, not assumed) *)
Definition closed (edges : list (string * string)) (t : table) : bool :=
  forallb (fun e => ssubset (tget t (fst e)) (tget t (snd e))) edges.

(* ------------------------------------------------------------------ goroutine roots reaching a function *)
Definition root_init : table :=
  fold_left (fun t r => if r_func r =? "" then t else tadd t (r_func r) [r_name r]) roots [].
Definition RR : table := Eval vm_compute in prop_iter 64 calls root_init.
Definition RR_closed : bool := Eval vm_compute in
  closed calls RR && forallb (fun r => (r_func r =? "") || smem (r_name r) (tget RR (r_func r))) roots.
Definition roots_reaching (f : string) : list string := tget RR f.

(* ------------------------------------------------------------------ must-hold: locks held at EVERY call site, transitively *)
Definition heq (a b : lockheld) : bool := (h_mutex a =? h_mutex b) && (h_owner a =? h_owner b).
Definition hmem (h : lockheld) (l : list lockheld) : bool := existsb (heq h) l.
Definition hinter (a b : list lockheld) : list lockheld := filter (fun h => hmem h b) a.
Definition hsubset (a b : list lockheld) : bool := forallb (fun h => hmem h b) a.
Definition hdedup (a : list lockheld) : list lockheld := fold_right (fun h acc => if hmem h acc then acc else h :: acc) [] a.

Definition mhtable := list (string * list lockheld).
Fixpoint mh_get (t : mhtable) (k : string) : list lockheld :=
  match t with
  | [] => []
  | (k', v) :: r => if k =? k' then v else mh_get r k
  end.

Definition method_call (c : callsite) : bool :=
  (c_kind c =? "static") || (c_kind c =? "iface") || (c_kind c =? "byname").

(* a lock of the receiver of the call becomes a lock of the callee's receiver variable rv;
   every other lock is carried with owner "*" (some other object) *)
Definition translate (c : callsite) (rv : string) (h : lockheld) : lockheld :=
  if method_call c && negb (c_recv c =? "") && negb (rv =? "") && (h_owner h =? c_recv c)
  then mkHeld (h_mutex h) rv else mkHeld (h_mutex h) "*".

Definition incoming (mh : mhtable) (rv : string) (c : callsite) : list lockheld :=
  if c_kind c =? "funcvalue" then []     (* the function escapes as a value: called from anywhere *)
  else map (translate c rv) (c_held c ++ mh_get mh (c_caller c)).

Definition is_root_func (f : string) : bool := existsb (fun r => r_func r =? f) roots.

Definition mh_step (mh : mhtable) : mhtable :=
  map (fun f =>
         (f_name f,
          if is_root_func (f_name f) then []
          else match filter (fun c => c_callee c =? f_name f) callsites with
               | [] => []
               | c :: cs => hdedup (fold_left (fun acc c' => hinter acc (incoming mh (f_recv f) c')) cs (incoming mh (f_recv f) c))
               end)) funcs.

Definition MH : mhtable := Eval vm_compute in mh_step (mh_step (mh_step (mh_step []))).
(* soundness condition, checked: MH(f) is included in what every call site provides *)
Definition MH_sound : bool := Eval vm_compute in
  let nxt := mh_step MH in forallb (fun kv => hsubset (snd kv) (mh_get nxt (fst kv))) MH.
Definition held_at (a : access) : list lockheld := a_held a ++ mh_get MH (a_func a).

(* ------------------------------------------------------------------ the checker *)
Fixpoint field_lookup (p : list (string * string * disc)) (s f : string) : option disc :=
  match p with
  | [] => None
  | (s', f', d) :: r => if (s =? s') && (f =? f') then Some d else field_lookup r s f
  end.
Fixpoint struct_lookup (p : list (string * disc)) (s : string) : option disc :=
  match p with
  | [] => None
  | (s', d) :: r => if s =? s' then Some d else struct_lookup r s
  end.
Definition policy_of (s f : string) : option disc :=
  match field_lookup field_policy s f with
  | Some d => Some d
  | None => struct_lookup struct_policy s
  end.

Definition endpoints (cs : list string) : list string :=
  fold_left (fun acc o => if smem (ch_chan o) cs then sunion (roots_reaching (ch_func o)) acc else acc) chanops [].
Definition MSG_ENDPOINTS : list string := Eval vm_compute in endpoints msg_chans.
Definition endpoints_of (cs : list string) : list string :=
  if ssubset cs msg_chans && ssubset msg_chans cs then MSG_ENDPOINTS else endpoints cs.

Definition disc_ok (d : disc) (a : access) : bool :=
  match d with
  | LockedOwn m => existsb (fun h => (h_mutex h =? m) && (h_owner h =? a_base a)) (held_at a)
  | LockedBy m => existsb (fun h => h_mutex h =? m) (held_at a)
  | ConfinedTo r => forallb (fun r' => (r' =? r) || (r' =? "main")) (roots_reaching (a_func a))
  | InitOnly => negb (a_write a) || a_before_go a || forallb (fun r' => r' =? "main") (roots_reaching (a_func a))
  | HandedOff cs => let eps := endpoints_of cs in
                    forallb (fun r' => smem r' eps || (r' =? "main")) (roots_reaching (a_func a))
  | Atomic => a_atomic a
  end.

Definition site_ok (a : access) : bool :=
  RR_closed && MH_sound &&
  (a_ctor a ||
   match policy_of (a_struct a) (a_field a) with
   | Some d => disc_ok d a
   | None => negb (a_write a)
   end).

(* ------------------------------------------------------------------ completeness of the policy *)
Definition sf_mem (x : string * string) (l : list (string * string)) : bool :=
  existsb (fun y => (fst x =? fst y) && (snd x =? snd y)) l.
Definition written_fields : list (string * string) :=
  fold_right (fun a acc => if a_write a && negb (a_ctor a) && negb (sf_mem (a_struct a, a_field a) acc)
                           then (a_struct a, a_field a) :: acc else acc) [] accesses.
Definition classified (sf : string * string) : bool :=
  match policy_of (fst sf) (snd sf) with Some _ => true | None => false end.
(* and no stale entry: every field named by the policy exists in the package *)
Definition policy_fields_exist : bool :=
  forallb (fun e => existsb (fun d => (fst (fst d) =? fst (fst e)) && (snd (fst d) =? snd (fst e))) struct_fields) field_policy.

(* ------------------------------------------------------------------ lock order *)
Definition swap (e : string * string) := (snd e, fst e).
Definition kept_calls : list (string * string) :=
  map (fun c => (c_caller c, c_callee c)) (filter (fun c => negb (excluded_call c)) callsites).
Definition acq_init : table := fold_left (fun t l => tadd t (l_func l) [l_mutex l]) acquisitions [].
(* ACQ f: the mutexes f or anything it (transitively) calls may acquire *)
Definition ACQ : table := Eval vm_compute in prop_iter 64 (map swap kept_calls) acq_init.
Definition ACQ_closed : bool := Eval vm_compute in
  closed (map swap kept_calls) ACQ && forallb (fun l => smem (l_mutex l) (tget ACQ (l_func l))) acquisitions.

(* N -> M: M may be acquired while N is held (lexically, or in a callee of a call made
   inside N's lexical region) *)
Definition order_edges : list (string * string) :=
  lock_edges ++
  flat_map (fun c => if excluded_call c then [] else
                     flat_map (fun h => map (fun m => (h_mutex h, m)) (tget ACQ (c_callee c))) (c_held c)) callsites.
Definition dedup_edges (l : list (string * string)) : list (string * string) :=
  fold_right (fun e acc => if sf_mem e acc then acc else e :: acc) [] l.
Definition ORDER : list (string * string) := Eval vm_compute in dedup_edges order_edges.
Definition succ_init : table := fold_left (fun t e => tadd t (fst e) [snd e]) ORDER [].
Definition SUCC : table := Eval vm_compute in prop_iter 64 (map swap ORDER) succ_init.
Definition lock_order_acyclic : bool :=
  ACQ_closed && closed (map swap ORDER) SUCC &&
  forallb (fun e => smem (snd e) (tget SUCC (fst e))) ORDER &&
  forallb (fun kv => negb (smem (fst kv) (snd kv))) SUCC.

(* informational: channel sends that may happen while a mutex is held (channel capacity and
   blocking are not modelled; see the report) *)
Definition send_init : table :=
  fold_left (fun t o => if ch_send o then tadd t (ch_func o) [ch_chan o] else t) chanops [].
Definition SENDS : table := Eval vm_compute in prop_iter 64 (map swap kept_calls) send_init.
Definition sends_while_locked : list (string * string) := Eval vm_compute in
  dedup_edges (flat_map (fun c => flat_map (fun h => map (fun ch => (h_mutex h, ch)) (tget SENDS (c_callee c))) (c_held c)) callsites
               ++ flat_map (fun o => if ch_send o then map (fun h => (h_mutex h, ch_chan o)) (ch_held o) else []) chanops).

(* ------------------------------------------------------------------ diagnostics (used by tools/props/c09.py) *)
Definition num_str (n : N) : string := NilEmpty.string_of_uint (N.to_uint n).
Definition join (sep : string) (l : list string) : string :=
  match l with [] => "" | x :: r => fold_left (fun acc y => acc ++ sep ++ y) r x end.
Definition show_disc (d : option disc) : string :=
  match d with
  | None => "unclassified(no-write-outside-constructors)"
  | Some (LockedOwn m) => "LockedOwn:" ++ m
  | Some (LockedBy m) => "LockedBy:" ++ m
  | Some (ConfinedTo r) => "ConfinedTo:" ++ r
  | Some InitOnly => "InitOnly"
  | Some (HandedOff cs) => "HandedOff:" ++ join "," cs
  | Some Atomic => "Atomic"
  end.
Definition show_site (a : access) : string :=
  join "|" [a_struct a; a_field a; a_func a; a_file a; num_str (a_line a);
            (if a_write a then "write" else "read");
            show_disc (policy_of (a_struct a) (a_field a));
            join "," (roots_reaching (a_func a));
            join "," (map (fun h => h_mutex h ++ "@" ++ h_owner h) (held_at a))].
Definition failing_sites : list string := map show_site (filter (fun a => negb (site_ok a)) accesses).
Definition unclassified_fields : list string :=
  map (fun sf => fst sf ++ "." ++ snd sf) (filter (fun sf => negb (classified sf)) written_fields).
Definition order_cycles : list string :=
  map (fun kv => fst kv) (filter (fun kv => smem (fst kv) (snd kv)) SUCC).
