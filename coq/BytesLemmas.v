(* BytesLemmas.v — general facts about the definitions of Bytes.v, reused by every proof
   under proofs/.  No axioms, no admits. *)
From Coq Require Import List Ascii String ZArith NArith Bool Lia Permutation.
From Coq Require Import ZifyBool ZifyNat ZifyN.
From Model Require Import Bytes.
Import ListNotations.
Open Scope list_scope.

(* ------------------------------------------------------------------ equality *)
Lemma beq_refl a : beq a a = true.
Proof.
  induction a as [|x a IH]; cbn; [reflexivity|].
  rewrite Ascii.eqb_refl, IH. reflexivity.
Qed.

Lemma beq_eq a b : beq a b = true <-> a = b.
Proof.
  split.
  - revert b. induction a as [|x a IH]; intros [|y b] H; cbn in H;
      try discriminate; [reflexivity|].
    apply andb_true_iff in H. destruct H as [H1 H2].
    apply Ascii.eqb_eq in H1. apply IH in H2. subst. reflexivity.
  - intros ->. apply beq_refl.
Qed.

Lemma beq_neq a b : beq a b = false <-> a <> b.
Proof.
  split.
  - intros H E. apply beq_eq in E. congruence.
  - intros H. destruct (beq a b) eqn:E; [|reflexivity].
    apply beq_eq in E. contradiction.
Qed.

Lemma beq_sym a b : beq a b = beq b a.
Proof.
  destruct (beq a b) eqn:E1; destruct (beq b a) eqn:E2; try reflexivity.
  - apply beq_eq in E1. subst. rewrite beq_refl in E2. discriminate.
  - apply beq_eq in E2. subst. rewrite beq_refl in E1. discriminate.
Qed.

Lemma beq_spec a b : reflect (a = b) (beq a b).
Proof.
  destruct (beq a b) eqn:E; constructor.
  - apply beq_eq. exact E.
  - apply beq_neq. exact E.
Qed.

Lemma equal_fold_sym a b : equal_fold a b = equal_fold b a.
Proof. unfold equal_fold. apply beq_sym. Qed.

(* ------------------------------------------------------------------ searching *)
Lemma index_byte_none c s : index_byte c s = None <-> ~ In c s.
Proof.
  induction s as [|x r IH]; cbn.
  - split; [intros _ []|reflexivity].
  - destruct (Ascii.eqb_spec x c) as [E|E].
    + split; [discriminate|]. intros H. exfalso. apply H. left. exact E.
    + destruct (index_byte c r) as [n|].
      * split; [discriminate|]. intros H.
        assert (H' : ~ In c r) by (intros H1; apply H; right; exact H1).
        apply IH in H'. discriminate.
      * split; [|reflexivity]. intros _ [H|H]; [contradiction|].
        apply (proj1 IH eq_refl). exact H.
Qed.

Lemma index_byte_some c s n : index_byte c s = Some n ->
   s = firstn n s ++ c :: skipn (S n) s /\ ~ In c (firstn n s) /\ n < List.length s.
Proof.
  revert n. induction s as [|x r IH]; intros n H; cbn in H; [discriminate|].
  destruct (Ascii.eqb_spec x c) as [E|E].
  - injection H as <-. subst x. cbn. repeat split; [tauto|lia].
  - destruct (index_byte c r) as [m|] eqn:Er; [|discriminate].
    injection H as <-.
    destruct (IH m eq_refl) as (H1 & H2 & H3).
    cbn [firstn skipn List.length app]. repeat split.
    + f_equal. exact H1.
    + intros [H|H]; [contradiction|]. apply H2. exact H.
    + lia.
Qed.

Lemma index_byte_app_notin c a b : ~ In c a -> index_byte c (a ++ c :: b) = Some (List.length a).
Proof.
  induction a as [|x a IH]; intros H; cbn.
  - rewrite Ascii.eqb_refl. reflexivity.
  - destruct (Ascii.eqb_spec x c) as [E|E].
    + exfalso. apply H. left. exact E.
    + rewrite IH; [reflexivity|]. intros H1. apply H. right. exact H1.
Qed.

Lemma last_index_byte_none c s : last_index_byte c s = None <-> ~ In c s.
Proof.
  induction s as [|x r IH]; cbn.
  - split; [intros _ []|reflexivity].
  - destruct (last_index_byte c r) as [n|].
    + split; [discriminate|]. intros H.
      assert (H' : ~ In c r) by (intros H1; apply H; right; exact H1).
      apply IH in H'. discriminate.
    + destruct (Ascii.eqb_spec x c) as [E|E].
      * split; [discriminate|]. intros H. exfalso. apply H. left. exact E.
      * split; [|reflexivity]. intros _ [H|H]; [contradiction|].
        apply (proj1 IH eq_refl). exact H.
Qed.

Lemma last_index_byte_app c a b : ~ In c b -> last_index_byte c (a ++ c :: b) = Some (List.length a).
Proof.
  intros H. induction a as [|x a IH]; cbn.
  - rewrite (proj2 (last_index_byte_none c b) H). rewrite Ascii.eqb_refl. reflexivity.
  - rewrite IH. reflexivity.
Qed.

Lemma contains_byte_in c s : contains_byte c s = true <-> In c s.
Proof.
  unfold contains_byte. destruct (index_byte c s) as [n|] eqn:E.
  - split; [intros _|reflexivity].
    destruct (in_dec ascii_dec c s) as [H|H]; [exact H|].
    apply index_byte_none in H. congruence.
  - split; [discriminate|]. intros H. apply index_byte_none in E. contradiction.
Qed.

(* ------------------------------------------------------------------ split / join *)
Lemma split_byte_nonempty c s : split_byte c s <> [].
Proof.
  destruct s as [|x r]; cbn; [discriminate|].
  destruct (Ascii.eqb x c); [discriminate|].
  destruct (split_byte c r); discriminate.
Qed.

Lemma split_byte_notin c s : Forall (fun x => ~ In c x) (split_byte c s).
Proof.
  induction s as [|x r IH]; cbn.
  - constructor; [intros []|constructor].
  - destruct (Ascii.eqb_spec x c) as [E|E].
    + constructor; [intros []|exact IH].
    + destruct (split_byte c r) as [|h t].
      * constructor; [|constructor]. intros [H|[]]. contradiction.
      * inversion IH as [|h' t' Hh Ht]; subst. constructor; [|exact Ht].
        intros [H|H]; contradiction.
Qed.

Lemma join_byte_cons2 c a l : l <> [] -> join_byte c (a :: l) = a ++ c :: join_byte c l.
Proof. destruct l; [contradiction|reflexivity]. Qed.

Lemma join_byte_cons_head c x h t : join_byte c ((x :: h) :: t) = x :: join_byte c (h :: t).
Proof. destruct t; reflexivity. Qed.

Lemma join_split c s : join_byte c (split_byte c s) = s.
Proof.
  induction s as [|x r IH]; cbn [split_byte]; [reflexivity|].
  destruct (Ascii.eqb_spec x c) as [E|E].
  - subst x. rewrite join_byte_cons2 by apply split_byte_nonempty.
    rewrite IH. reflexivity.
  - pose proof (split_byte_nonempty c r) as NE.
    destruct (split_byte c r) as [|h t]; [contradiction|].
    rewrite join_byte_cons_head. f_equal. exact IH.
Qed.

Lemma split_byte_single c a : ~ In c a -> split_byte c a = [a].
Proof.
  induction a as [|x a IH]; intros H; cbn; [reflexivity|].
  destruct (Ascii.eqb_spec x c) as [E|E].
  - exfalso. apply H. left. exact E.
  - rewrite IH; [reflexivity|]. intros H1. apply H. right. exact H1.
Qed.

Lemma split_byte_app c a s : ~ In c a -> split_byte c (a ++ c :: s) = a :: split_byte c s.
Proof.
  induction a as [|x a IH]; intros H; cbn.
  - rewrite Ascii.eqb_refl. reflexivity.
  - destruct (Ascii.eqb_spec x c) as [E|E].
    + exfalso. apply H. left. exact E.
    + rewrite IH; [reflexivity|]. intros H1. apply H. right. exact H1.
Qed.

Lemma split_join c l : l <> [] -> Forall (fun x => ~ In c x) l ->
  split_byte c (join_byte c l) = l.
Proof.
  induction l as [|a l IH]; intros NE HF; [contradiction|].
  inversion HF as [|a' l' Ha Hl]; subst.
  destruct l as [|b l].
  - cbn. apply split_byte_single. exact Ha.
  - rewrite join_byte_cons2 by discriminate.
    rewrite split_byte_app by exact Ha.
    f_equal. apply IH; [discriminate|exact Hl].
Qed.

(* ------------------------------------------------------------------ numbers *)
Lemma N_of_digit m : (m < 10)%N -> N_of_ascii (ascii_of_N (48 + m)) = (48 + m)%N.
Proof. intros H. apply N_ascii_embedding. lia. Qed.

Lemma is_digit_range c : is_digit c = true <-> (48 <= N_of_ascii c <= 57)%N.
Proof. unfold is_digit. cbv zeta. lia. Qed.

Lemma is_digit_of_digit m : (m < 10)%N -> is_digit (ascii_of_N (48 + m)) = true.
Proof. intros H. apply is_digit_range. rewrite N_of_digit by exact H. lia. Qed.

Lemma digit_val_of_digit m : (m < 10)%N -> digit_val (ascii_of_N (48 + m)) = Z.of_N m.
Proof. intros H. unfold digit_val. rewrite N_of_digit by exact H. lia. Qed.

Lemma utoa_fuel_app f : forall n acc, utoa_fuel f n acc = utoa_fuel f n [] ++ acc.
Proof.
  induction f as [|f IH]; intros n acc; cbn [utoa_fuel].
  - reflexivity.
  - destruct (N.eqb (n / 10) 0).
    + reflexivity.
    + rewrite IH. rewrite (IH _ [_]). rewrite <- app_assoc. reflexivity.
Qed.

Lemma utoa_fuel_digits f : forall n, Forall (fun c => is_digit c = true) (utoa_fuel f n []).
Proof.
  induction f as [|f IH]; intros n; cbn [utoa_fuel]; [constructor|].
  assert (D : is_digit (ascii_of_N (48 + n mod 10)) = true).
  { apply is_digit_of_digit. apply N.mod_lt. lia. }
  destruct (N.eqb (n / 10) 0).
  - constructor; [exact D|constructor].
  - rewrite utoa_fuel_app. apply Forall_app. split; [apply IH|].
    constructor; [exact D|constructor].
Qed.

Lemma utoa_digits n : utoa n <> [] /\ Forall (fun c => is_digit c = true) (utoa n).
Proof.
  split; [|apply utoa_fuel_digits].
  unfold utoa. cbn [utoa_fuel].
  destruct (N.eqb (n / 10) 0); [discriminate|].
  rewrite utoa_fuel_app. intros H. apply app_eq_nil in H. destruct H as [_ H]. discriminate.
Qed.

Lemma digits_val_app l c : forall a,
  digits_val (l ++ [c]) a =
  match digits_val l a with
  | Some v => if is_digit c then Some (v * 10 + digit_val c)%Z else None
  | None => None
  end.
Proof.
  induction l as [|x l IH]; intros a; cbn [digits_val app].
  - destruct (is_digit c); reflexivity.
  - destruct (is_digit x); [apply IH|reflexivity].
Qed.

Lemma N_lt_pow2_size n : (n < 2 ^ N.of_nat (N.size_nat n))%N.
Proof.
  destruct n as [|p]; [cbn; lia|].
  cbn [N.size_nat].
  induction p as [p IH|p IH|]; cbn [Pos.size_nat].
  - rewrite Nat2N.inj_succ, N.pow_succ_r'. lia.
  - rewrite Nat2N.inj_succ, N.pow_succ_r'. lia.
  - cbn. lia.
Qed.

Lemma digits_val_utoa_fuel f : forall n, (n < 2 ^ N.of_nat f)%N ->
  digits_val (utoa_fuel f n []) 0 = Some (Z.of_N n).
Proof.
  induction f as [|f IH]; intros n H.
  - cbn in H. assert (n = 0%N) by lia. subst n. reflexivity.
  - cbn [utoa_fuel].
    assert (Hm : (n mod 10 < 10)%N) by (apply N.mod_lt; lia).
    pose proof (N.div_mod n 10 ltac:(lia)) as Hd.
    pose proof (is_digit_of_digit _ Hm) as D.
    pose proof (digit_val_of_digit _ Hm) as DV.
    destruct (N.eqb_spec (n / 10) 0) as [E|E].
    + cbn [digits_val]. rewrite D, DV. f_equal. lia.
    + rewrite utoa_fuel_app, digits_val_app, IH, D, DV.
      * f_equal. lia.
      * rewrite Nat2N.inj_succ, N.pow_succ_r' in H.
        apply N.div_lt_upper_bound; lia.
Qed.

Lemma digits_val_utoa n : digits_val (utoa n) 0 = Some (Z.of_N n).
Proof.
  unfold utoa. apply digits_val_utoa_fuel.
  pose proof (N_lt_pow2_size n) as H.
  rewrite Nat2N.inj_succ, N.pow_succ_r'. lia.
Qed.

Lemma is_digit_not_sign c : is_digit c = true ->
  Ascii.eqb c "-" = false /\ Ascii.eqb c "+" = false.
Proof.
  intros H. split.
  - destruct (Ascii.eqb_spec c "-") as [E|E]; [subst; discriminate|reflexivity].
  - destruct (Ascii.eqb_spec c "+") as [E|E]; [subst; discriminate|reflexivity].
Qed.

(* atoi on an unsigned, non-empty, all-digit text *)
Lemma atoi_unsigned s v : s <> [] -> Forall (fun c => is_digit c = true) s ->
  digits_val s 0 = Some v -> (int_min <= v <= int_max)%Z -> atoi s = Some v.
Proof.
  intros NE HF HV [Hlo Hhi].
  destruct s as [|c r]; [contradiction|].
  inversion HF as [|c' r' Hc Hr]; subst.
  destruct (is_digit_not_sign c Hc) as [E1 E2].
  unfold atoi. rewrite E1, E2. cbn [orb]. rewrite HV.
  apply Z.leb_le in Hlo. apply Z.leb_le in Hhi. rewrite Hlo, Hhi. reflexivity.
Qed.

Lemma atoi_itoa z : (int_min <= z <= int_max)%Z -> atoi (itoa z) = Some z.
Proof.
  intros [Hlo Hhi]. unfold itoa.
  destruct (Z.ltb_spec z 0) as [Hn|Hn].
  - destruct (utoa_digits (Z.to_N (- z))) as [NE _].
    pose proof (digits_val_utoa (Z.to_N (- z))) as HV.
    rewrite Z2N.id in HV by lia.
    unfold atoi. rewrite Ascii.eqb_refl. cbn [orb].
    destruct (utoa (Z.to_N (- z))) as [|c r]; [contradiction|].
    rewrite HV. rewrite Z.opp_involutive.
    apply Z.leb_le in Hlo. apply Z.leb_le in Hhi. rewrite Hlo, Hhi. reflexivity.
  - destruct (utoa_digits (Z.to_N z)) as [NE HF].
    apply atoi_unsigned; [exact NE|exact HF| |lia].
    rewrite digits_val_utoa. rewrite Z2N.id by lia. reflexivity.
Qed.

(* every char of itoa z is a digit or '-' *)
Lemma itoa_chars z : Forall (fun c => is_digit c = true \/ c = "-"%char) (itoa z).
Proof.
  assert (U : forall n, Forall (fun c => is_digit c = true \/ c = "-"%char) (utoa n)).
  { intros n. destruct (utoa_digits n) as [_ HF].
    apply Forall_forall. intros c Hc. left.
    apply (proj1 (Forall_forall _ _) HF). exact Hc. }
  unfold itoa. destruct (Z.ltb z 0).
  - constructor; [right; reflexivity|apply U].
  - apply U.
Qed.

Lemma itoa_no_colon z : ~ In ":"%char (itoa z).
Proof.
  intros H. pose proof (itoa_chars z) as HF.
  apply (proj1 (Forall_forall _ _) HF) in H. destruct H as [H|H]; discriminate.
Qed.

Lemma itoa_nonempty z : itoa z <> [].
Proof.
  unfold itoa. destruct (Z.ltb z 0); [discriminate|].
  apply utoa_digits.
Qed.

(* ------------------------------------------------------------------ association lists *)
Lemma alookup_aset_same {V} k (v:V) m : alookup k (aset k v m) = Some v.
Proof.
  induction m as [|[k' v'] r IH]; cbn.
  - rewrite beq_refl. reflexivity.
  - destruct (beq k k') eqn:E; cbn; rewrite E; [reflexivity|exact IH].
Qed.

Lemma alookup_aset_other {V} k k' (v:V) m : k <> k' -> alookup k (aset k' v m) = alookup k m.
Proof.
  intros NE. induction m as [|[k0 v0] r IH]; cbn.
  - apply beq_neq in NE. rewrite NE. reflexivity.
  - destruct (beq k' k0) eqn:E; cbn.
    + apply beq_eq in E. subst k0. apply beq_neq in NE. rewrite NE. reflexivity.
    + destruct (beq k k0); [reflexivity|exact IH].
Qed.

Lemma alookup_adel_same {V} k (m:list (bytes*V)) : alookup k (adel k m) = None.
Proof.
  induction m as [|[k' v'] r IH]; cbn; [reflexivity|].
  destruct (beq k k') eqn:E; cbn; [exact IH|]. rewrite E. exact IH.
Qed.

Lemma alookup_adel_other {V} k k' (m:list (bytes*V)) : k <> k' ->
  alookup k (adel k' m) = alookup k m.
Proof.
  intros NE. induction m as [|[k0 v0] r IH]; cbn; [reflexivity|].
  destruct (beq k' k0) eqn:E; cbn.
  - apply beq_eq in E. subst k0. apply beq_neq in NE. rewrite NE. exact IH.
  - destruct (beq k k0); [reflexivity|exact IH].
Qed.

Lemma aset_keys_in {V} x k (v:V) m :
  In x (map fst (aset k v m)) -> x = k \/ In x (map fst m).
Proof.
  induction m as [|[k' v'] r IH]; cbn.
  - intros [H|[]]. left. symmetry. exact H.
  - destruct (beq k k') eqn:E; cbn; intros [H|H].
    + right. left. exact H.
    + right. right. exact H.
    + right. left. exact H.
    + destruct (IH H) as [H1|H1]; [left; exact H1|right; right; exact H1].
Qed.

Lemma aset_in {V} d x k (v:V) m :
  In (d, x) (aset k v m) -> (d = k /\ x = v) \/ In (d, x) m.
Proof.
  induction m as [|[k' v'] r IH]; cbn.
  - intros [H|[]]. injection H as <- <-. left. split; reflexivity.
  - destruct (beq k k') eqn:E; cbn; intros [H|H].
    + apply beq_eq in E. subst k'. injection H as <- <-. left. split; reflexivity.
    + right. right. exact H.
    + right. left. exact H.
    + destruct (IH H) as [H1|H1]; [left; exact H1|right; right; exact H1].
Qed.

Lemma aset_keys_nodup {V} k (v:V) m : NoDup (map fst m) -> NoDup (map fst (aset k v m)).
Proof.
  induction m as [|[k' v'] r IH]; cbn; intros ND.
  - constructor; [intros []|constructor].
  - inversion ND as [|k0 l0 Hnin Hnd]; subst.
    destruct (beq k k') eqn:E; cbn.
    + constructor; assumption.
    + constructor; [|apply IH; exact Hnd].
      intros H. apply aset_keys_in in H. destruct H as [H|H]; [|contradiction].
      subst k'. rewrite beq_refl in E. discriminate.
Qed.

Lemma alookup_in {V} k (v:V) m : alookup k m = Some v -> In (k, v) m.
Proof.
  induction m as [|[k' v'] r IH]; cbn; [discriminate|].
  destruct (beq k k') eqn:E.
  - intros H. injection H as <-. apply beq_eq in E. subst k'. left. reflexivity.
  - intros H. right. apply IH. exact H.
Qed.

Lemma in_alookup {V} k (v:V) m : NoDup (map fst m) -> In (k, v) m -> alookup k m = Some v.
Proof.
  induction m as [|[k' v'] r IH]; cbn; intros ND HI; [contradiction|].
  inversion ND as [|k0 l0 Hnin Hnd]; subst.
  destruct HI as [H|H].
  - injection H as -> ->. rewrite beq_refl. reflexivity.
  - destruct (beq k k') eqn:E.
    + apply beq_eq in E. subst k'. exfalso. apply Hnin.
      change k with (fst (k, v)). apply in_map. exact H.
    + apply IH; assumption.
Qed.

Lemma alookup_none {V} k (m : list (bytes*V)) : alookup k m = None <-> ~ In k (map fst m).
Proof.
  induction m as [|[k' v'] r IH]; cbn.
  - split; [intros _ []|reflexivity].
  - destruct (beq k k') eqn:E.
    + apply beq_eq in E. subst k'. split; [discriminate|]. intros H. exfalso. apply H. left. reflexivity.
    + apply beq_neq in E. rewrite IH. split.
      * intros H [H1|H1]; [apply E; symmetry; exact H1|apply H; exact H1].
      * intros H H1. apply H. right. exact H1.
Qed.

Lemma alookup_perm {V} k (m1 m2 : list (bytes*V)) :
  NoDup (map fst m1) -> Permutation m1 m2 -> alookup k m1 = alookup k m2.
Proof.
  intros ND P.
  assert (ND2 : NoDup (map fst m2)).
  { apply (Permutation_NoDup (l := map fst m1)); [|exact ND]. apply Permutation_map. exact P. }
  destruct (alookup k m1) as [v|] eqn:E1.
  - symmetry. apply in_alookup; [exact ND2|].
    apply (Permutation_in _ P). apply alookup_in. exact E1.
  - destruct (alookup k m2) as [v|] eqn:E2; [|reflexivity].
    apply alookup_in in E2. apply (Permutation_in _ (Permutation_sym P)) in E2.
    apply (in_alookup _ _ _ ND) in E2. congruence.
Qed.
