(* BytesLemmas.v — general facts about the definitions of Bytes.v, reused by every proof
   under proofs/.  No axioms, no admits. *)
From Coq Require Import List Ascii String ZArith NArith Bool Lia Permutation.
From Coq Require Import ZifyBool ZifyNat ZifyN.
From Model Require Import Bytes.
Import ListNotations.
Open Scope list_scope.

(* ------------------------------------------------------------------ equality *)
Lemma beq_refl a : beq a a = true.
Proof.
  induction a as [|x a IH]; cbn; [reflexivity|].
  rewrite Ascii.eqb_refl, IH. reflexivity.
Qed.

Lemma beq_eq a b : beq a b = true <-> a = b.
Proof.
  split.
  - revert b. induction a as [|x a IH]; intros [|y b] H; cbn in H;
      try discriminate; [reflexivity|].
    apply andb_true_iff in H. destruct H as [H1 H2].
    apply Ascii.eqb_eq in H1. apply IH in H2. subst. reflexivity.
  - intros ->. apply beq_refl.
Qed.

Lemma beq_neq a b : beq a b = false <-> a <> b.
Proof.
  split.
  - intros H E. apply beq_eq in E. congruence.
  - intros H. destruct (beq a b) eqn:E; [|reflexivity].
    apply beq_eq in E. contradiction.
Qed.

Lemma beq_sym a b : beq a b = beq b a.
Proof.
  destruct (beq a b) eqn:E1; destruct (beq b a) eqn:E2; try reflexivity.
  - apply beq_eq in E1. subst. rewrite beq_refl in E2. discriminate.
  - apply beq_eq in E2. subst. rewrite beq_refl in E1. discriminate.
Qed.

Lemma beq_spec a b : reflect (a = b) (beq a b).
Proof.
  destruct (beq a b) eqn:E; constructor.
  - apply beq_eq. exact E.
  - apply beq_neq. exact E.
Qed.

Lemma equal_fold_sym a b : equal_fold a b = equal_fold b a.
Proof. unfold equal_fold. apply beq_sym. Qed.

(* ------------------------------------------------------------------ searching *)
Lemma index_byte_none c s : index_byte c s = None <-> ~ In c s.
Proof.
  induction s as [|x r IH]; cbn.
  - split; [intros _ []|reflexivity].
  - destruct (Ascii.eqb_spec x c) as [E|E].
    + split; [discriminate|]. intros H. exfalso. apply H. left. exact E.
    + destruct (index_byte c r) as [n|].
      * split; [discriminate|]. intros H.
        assert (H' : ~ In c r) by (intros H1; apply H; right; exact H1).
        apply IH in H'. discriminate.
      * split; [|reflexivity]. intros _ [H|H]; [contradiction|].
        apply (proj1 IH eq_refl). exact H.
Qed.

Lemma index_byte_some c s n : index_byte c s = Some n ->
   s = firstn n s ++ c :: skipn (S n) s /\ ~ In c (firstn n s) /\ n < List.length s.
Proof.
  revert n. induction s as [|x r IH]; intros n H; cbn in H; [discriminate|].
  destruct (Ascii.eqb_spec x c) as [E|E].
  - injection H as <-. subst x. cbn. repeat split; [tauto|lia].
  - destruct (index_byte c r) as [m|] eqn:Er; [|discriminate].
    injection H as <-.
    destruct (IH m eq_refl) as (H1 & H2 & H3).
    cbn [firstn skipn List.length app]. repeat split.
    + f_equal. exact H1.
    + intros [H|H]; [contradiction|]. apply H2. exact H.
    + lia.
Qed.

Lemma index_byte_app_notin c a b : ~ In c a -> index_byte c (a ++ c :: b) = Some (List.length a).
Proof.
  induction a as [|x a IH]; intros H; cbn.
  - rewrite Ascii.eqb_refl. reflexivity.
  - destruct (Ascii.eqb_spec x c) as [E|E].
    + exfalso. apply H. left. exact E.
    + rewrite IH; [reflexivity|]. intros H1. apply H. right. exact H1.
Qed.

Lemma last_index_byte_none c s : last_index_byte c s = None <-> ~ In c s.
Proof.
  induction s as [|x r IH]; cbn.
  - split; [intros _ []|reflexivity].
  - destruct (last_index_byte c r) as [n|].
    + split; [discriminate|]. intros H.
      assert (H' : ~ In c r) by (intros H1; apply H; right; exact H1).
      apply IH in H'. discriminate.
    + destruct (Ascii.eqb_spec x c) as [E|E].
      * split; [discriminate|]. intros H. exfalso. apply H. left. exact E.
      * split; [|reflexivity]. intros _ [H|H]; [contradiction|].
        apply (proj1 IH eq_refl). exact H.
Qed.

Lemma last_index_byte_app c a b : ~ In c b -> last_index_byte c (a ++ c :: b) = Some (List.length a).
Proof.
  intros H. induction a as [|x a IH]; cbn.
  - rewrite (proj2 (last_index_byte_none c b) H). rewrite Ascii.eqb_refl. reflexivity.
  - rewrite IH. reflexivity.
Qed.

Lemma contains_byte_in c s : contains_byte c s = true <-> In c s.
Proof.
  unfold contains_byte. destruct (index_byte c s) as [n|] eqn:E.
  - split; [intros _|reflexivity].
    destruct (in_dec ascii_dec c s) as [H|H]; [exact H|].
    apply index_byte_none in H. congruence.
  - split; [discriminate|]. intros H. apply index_byte_none in E. contradiction.
Qed.

(* ------------------------------------------------------------------ split / join *)
Lemma split_byte_nonempty c s : split_byte c s <> [].
Proof.
  destruct s as [|x r]; cbn; [discriminate|].
  destruct (Ascii.eqb x c); [discriminate|].
  destruct (split_byte c r); discriminate.
Qed.

Lemma split_byte_notin c s : Forall (fun x => ~ In c x) (split_byte c s).
Proof.
  induction s as [|x r IH]; cbn.
  - constructor; [intros []|constructor].
  - destruct (Ascii.eqb_spec x c) as [E|E].
    + constructor; [intros []|exact IH].
    + destruct (split_byte c r) as [|h t].
      * constructor; [|constructor]. intros [H|[]]. contradiction.
      * inversion IH as [|h' t' Hh Ht]; subst. constructor; [|exact Ht].
        intros [H|H]; contradiction.
Qed.

Lemma join_byte_cons2 c a l : l <> [] -> join_byte c (a :: l) = a ++ c :: join_byte c l.
Proof. destruct l; [contradiction|reflexivity]. Qed.

Lemma join_byte_cons_head c x h t : join_byte c ((x :: h) :: t) = x :: join_byte c (h :: t).
Proof. destruct t; reflexivity. Qed.

Lemma join_split c s : join_byte c (split_byte c s) = s.
Proof.
  induction s as [|x r IH]; cbn [split_byte]; [reflexivity|].
  destruct (Ascii.eqb_spec x c) as [E|E].
  - subst x. rewrite join_byte_cons2 by apply split_byte_nonempty.
    rewrite IH. reflexivity.
  - pose proof (split_byte_nonempty c r) as NE.
    destruct (split_byte c r) as [|h t]; [contradiction|].
    rewrite join_byte_cons_head. f_equal. exact IH.
Qed.

Lemma split_byte_single c a : ~ In c a -> split_byte c a = [a].
Proof.
  induction a as [|x a IH]; intros H; cbn; [reflexivity|].
  destruct (Ascii.eqb_spec x c) as [E|E].
  - exfalso. apply H. left. exact E.
  - rewrite IH; [reflexivity|]. intros H1. apply H. right. exact H1.
Qed.

Lemma split_byte_app c a s : ~ In c a -> split_byte c (a ++ c :: s) = a :: split_byte c s.
Proof.
  induction a as [|x a IH]; intros H; cbn.
  - rewrite Ascii.eqb_refl. reflexivity.
  - destruct (Ascii.eqb_spec x c) as [E|E].
    + exfalso. apply H. left. exact E.
    + rewrite IH; [reflexivity|]. intros H1. apply H. right. exact H1.
Qed.

Lemma split_join c l : l <> [] -> Forall (fun x => ~ In c x) l ->
  split_byte c (join_byte c l) = l.
Proof.
  induction l as [|a l IH]; intros NE HF; [contradiction|].
  inversion HF as [|a' l' Ha Hl]; subst.
  destruct l as [|b l].
  - cbn. apply split_byte_single. exact Ha.
  - rewrite join_byte_cons2 by discriminate.
    rewrite split_byte_app by exact Ha.
    f_equal. apply IH; [discriminate|exact Hl].
Qed.

(* ------------------------------------------------------------------ numbers *)
Lemma N_of_digit m : (m < 10)%N -> N_of_ascii (ascii_of_N (48 + m)) = (48 + m)%N.
Proof. intros H. apply N_ascii_embedding. lia. Qed.

Lemma is_digit_range c : is_digit c = true <-> (48 <= N_of_ascii c <= 57)%N.
Proof. unfold is_digit. cbv zeta. lia. Qed.

Lemma is_digit_of_digit m : (m < 10)%N -> is_digit (ascii_of_N (48 + m)) = true.
Proof. intros H. apply is_digit_range. rewrite N_of_digit by exact H. lia. Qed.

Lemma digit_val_of_digit m : (m < 10)%N -> digit_val (ascii_of_N (48 + m)) = Z.of_N m.
Proof. intros H. unfold digit_val. rewrite N_of_digit by exact H. lia. Qed.

Lemma utoa_fuel_app f : forall n acc, utoa_fuel f n acc = utoa_fuel f n [] ++ acc.
Proof.
  induction f as [|f IH]; intros n acc; cbn [utoa_fuel].
  - reflexivity.
  - destruct (N.eqb (n / 10) 0).
    + reflexivity.
    + rewrite IH. rewrite (IH _ [_]). rewrite <- app_assoc. reflexivity.
Qed.

Lemma utoa_fuel_digits f : forall n, Forall (fun c => is_digit c = true) (utoa_fuel f n []).
Proof.
  induction f as [|f IH]; intros n; cbn [utoa_fuel]; [constructor|].
  assert (D : is_digit (ascii_of_N (48 + n mod 10)) = true).
  { apply is_digit_of_digit. apply N.mod_lt. lia. }
  destruct (N.eqb (n / 10) 0).
  - constructor; [exact D|constructor].
  - rewrite utoa_fuel_app. apply Forall_app. split; [apply IH|].
    constructor; [exact D|constructor].
Qed.

Lemma utoa_digits n : utoa n <> [] /\ Forall (fun c => is_digit c = true) (utoa n).
Proof.
  split; [|apply utoa_fuel_digits].
  unfold utoa. cbn [utoa_fuel].
  destruct (N.eqb (n / 10) 0); [discriminate|].
  rewrite utoa_fuel_app. intros H. apply app_eq_nil in H. destruct H as [_ H]. discriminate.
Qed.

Lemma digits_val_app l c : forall a,
  digits_val (l ++ [c]) a =
  match digits_val l a with
  | Some v => if is_digit c then Some (v * 10 + digit_val c)%Z else None
  | None => None
  end.
Proof.
  induction l as [|x l IH]; intros a; cbn [digits_val app].
  - destruct (is_digit c); reflexivity.
  - destruct (is_digit x); [apply IH|reflexivity].
Qed.

Lemma N_lt_pow2_size n : (n < 2 ^ N.of_nat (N.size_nat n))%N.
Proof.
  destruct n as [|p]; [cbn; lia|].
  cbn [N.size_nat].
  induction p as [p IH|p IH|]; cbn [Pos.size_nat].
  - rewrite Nat2N.inj_succ, N.pow_succ_r'. lia.
  - rewrite Nat2N.inj_succ, N.pow_succ_r'. lia.
  - cbn. lia.
Qed.

Lemma digits_val_utoa_fuel f : forall n, (n < 2 ^ N.of_nat f)%N ->
  digits_val (utoa_fuel f n []) 0 = Some (Z.of_N n).
Proof.
  induction f as [|f IH]; intros n H.
  - cbn in H. assert (n = 0%N) by lia. subst n. reflexivity.
  - cbn [utoa_fuel].
    assert (Hm : (n mod 10 < 10)%N) by (apply N.mod_lt; lia).
    pose proof (N.div_mod n 10 ltac:(lia)) as Hd.
    pose proof (is_digit_of_digit _ Hm) as D.
    pose proof (digit_val_of_digit _ Hm) as DV.
    destruct (N.eqb_spec (n / 10) 0) as [E|E].
    + cbn [digits_val]. rewrite D, DV. f_equal. lia.
    + rewrite utoa_fuel_app, digits_val_app, IH, D, DV.
      * f_equal. lia.
      * rewrite Nat2N.inj_succ, N.pow_succ_r' in H.
        apply N.div_lt_upper_bound; lia.
Qed.

Lemma digits_val_utoa n : digits_val (utoa n) 0 = Some (Z.of_N n).
Proof.
  unfold utoa. apply digits_val_utoa_fuel.
  pose proof (N_lt_pow2_size n) as H.
  rewrite Nat2N.inj_succ, N.pow_succ_r'. lia.
Qed.

Lemma is_digit_not_sign c : is_digit c = true ->
  Ascii.eqb c "-" = false /\ Ascii.eqb c "+" = false.
Proof.
  intros H. split.
  - destruct (Ascii.eqb_spec c "-") as [E|E]; [subst; discriminate|reflexivity].
  - destruct (Ascii.eqb_spec c "+") as [E|E]; [subst; discriminate|reflexivity].
Qed.

(* atoi on an unsigned, non-empty, all-digit text *)
Lemma atoi_unsigned s v : s <> [] -> Forall (fun c => is_digit c = true) s ->
  digits_val s 0 = Some v -> (int_min <= v <= int_max)%Z -> atoi s = Some v.
Proof.
  intros NE HF HV [Hlo Hhi].
  destruct s as [|c r]; [contradiction|].
  inversion HF as [|c' r' Hc Hr]; subst.
  destruct (is_digit_not_sign c Hc) as [E1 E2].
  unfold atoi. rewrite E1, E2. cbn [orb]. rewrite HV.
  apply Z.leb_le in Hlo. apply Z.leb_le in Hhi. rewrite Hlo, Hhi. reflexivity.
Qed.

Lemma atoi_itoa z : (int_min <= z <= int_max)%Z -> atoi (itoa z) = Some z.
Proof.
  intros [Hlo Hhi]. unfold itoa.
  destruct (Z.ltb_spec z 0) as [Hn|Hn].
  - destruct (utoa_digits (Z.to_N (- z))) as [NE _].
    pose proof (digits_val_utoa (Z.to_N (- z))) as HV.
    rewrite Z2N.id in HV by lia.
    unfold atoi. rewrite Ascii.eqb_refl. cbn [orb].
    destruct (utoa (Z.to_N (- z))) as [|c r]; [contradiction|].
    rewrite HV. rewrite Z.opp_involutive.
    apply Z.leb_le in Hlo. apply Z.leb_le in Hhi. rewrite Hlo, Hhi. reflexivity.
  - destruct (utoa_digits (Z.to_N z)) as [NE HF].
    apply atoi_unsigned; [exact NE|exact HF| |lia].
    rewrite digits_val_utoa. rewrite Z2N.id by lia. reflexivity.
Qed.

(* every char of itoa z is a digit or '-' *)
Lemma itoa_chars z : Forall (fun c => is_digit c = true \/ c = "-"%char) (itoa z).
Proof.
  assert (U : forall n, Forall (fun c => is_digit c = true \/ c = "-"%char) (utoa n)).
  { intros n. destruct (utoa_digits n) as [_ HF].
    apply Forall_forall. intros c Hc. left.
    apply (proj1 (Forall_forall _ _) HF). exact Hc. }
  unfold itoa. destruct (Z.ltb z 0).
  - constructor; [right; reflexivity|apply U].
  - apply U.
Qed.

Lemma itoa_no_colon z : ~ In ":"%char (itoa z).
Proof.
  intros H. pose proof (itoa_chars z) as HF.
  apply (proj1 (Forall_forall _ _) HF) in H. destruct H as [H|H]; discriminate.
Qed.

Lemma itoa_nonempty z : itoa z <> [].
Proof.
  unfold itoa. destruct (Z.ltb z 0); [discriminate|].
  apply utoa_digits.
Qed.

(* ------------------------------------------------------------------ association lists *)
Lemma alookup_aset_same {V} k (v:V) m : alookup k (aset k v m) = Some v.
Proof.
  induction m as [|[k' v'] r IH]; cbn.
  - rewrite beq_refl. reflexivity.
  - destruct (beq k k') eqn:E; cbn; rewrite E; [reflexivity|exact IH].
Qed.

Lemma alookup_aset_other {V} k k' (v:V) m : k <> k' -> alookup k (aset k' v m) = alookup k m.
Proof.
  intros NE. induction m as [|[k0 v0] r IH]; cbn.
  - apply beq_neq in NE. rewrite NE. reflexivity.
  - destruct (beq k' k0) eqn:E; cbn.
    + apply beq_eq in E. subst k0. apply beq_neq in NE. rewrite NE. reflexivity.
    + destruct (beq k k0); [reflexivity|exact IH].
Qed.

Lemma alookup_adel_same {V} k (m:list (bytes*V)) : alookup k (adel k m) = None.
Proof.
  induction m as [|[k' v'] r IH]; cbn; [reflexivity|].
  destruct (beq k k') eqn:E; cbn; [exact IH|]. rewrite E. exact IH.
Qed.

Lemma alookup_adel_other {V} k k' (m:list (bytes*V)) : k <> k' ->
  alookup k (adel k' m) = alookup k m.
Proof.
  intros NE. induction m as [|[k0 v0] r IH]; cbn; [reflexivity|].
  destruct (beq k' k0) eqn:E; cbn.
  - apply beq_eq in E. subst k0. apply beq_neq in NE. rewrite NE. exact IH.
  - destruct (beq k k0); [reflexivity|exact IH].
Qed.

Lemma aset_keys_in {V} x k (v:V) m :
  In x (map fst (aset k v m)) -> x = k \/ In x (map fst m).
Proof.
  induction m as [|[k' v'] r IH]; cbn.
  - intros [H|[]]. left. symmetry. exact H.
  - destruct (beq k k') eqn:E; cbn; intros [H|H].
    + right. left. exact H.
    + right. right. exact H.
    + right. left. exact H.
    + destruct (IH H) as [H1|H1]; [left; exact H1|right; right; exact H1].
Qed.

Lemma aset_in {V} d x k (v:V) m :
  In (d, x) (aset k v m) -> (d = k /\ x = v) \/ In (d, x) m.
Proof.
  induction m as [|[k' v'] r IH]; cbn.
  - intros [H|[]]. injection H as <- <-. left. split; reflexivity.
  - destruct (beq k k') eqn:E; cbn; intros [H|H].
    + apply beq_eq in E. subst k'. injection H as <- <-. left. split; reflexivity.
    + right. right. exact H.
    + right. left. exact H.
    + destruct (IH H) as [H1|H1]; [left; exact H1|right; right; exact H1].
Qed.

Lemma aset_keys_nodup {V} k (v:V) m : NoDup (map fst m) -> NoDup (map fst (aset k v m)).
Proof.
  induction m as [|[k' v'] r IH]; cbn; intros ND.
  - constructor; [intros []|constructor].
  - inversion ND as [|k0 l0 Hnin Hnd]; subst.
    destruct (beq k k') eqn:E; cbn.
    + constructor; assumption.
    + constructor; [|apply IH; exact Hnd].
      intros H. apply aset_keys_in in H. destruct H as [H|H]; [|contradiction].
      subst k'. rewrite beq_refl in E. discriminate.
Qed.

Lemma alookup_in {V} k (v:V) m : alookup k m = Some v -> In (k, v) m.
Proof.
  induction m as [|[k' v'] r IH]; cbn; [discriminate|].
  destruct (beq k k') eqn:E.
  - intros H. injection H as <-. apply beq_eq in E. subst k'. left. reflexivity.
  - intros H. right. apply IH. exact H.
Qed.

Lemma in_alookup {V} k (v:V) m : NoDup (map fst m) -> In (k, v) m -> alookup k m = Some v.
Proof.
  induction m as [|[k' v'] r IH]; cbn; intros ND HI; [contradiction|].
  inversion ND as [|k0 l0 Hnin Hnd]; subst.
  destruct HI as [H|H].
  - injection H as -> ->. rewrite beq_refl. reflexivity.
  - destruct (beq k k') eqn:E.
    + apply beq_eq in E. subst k'. exfalso. apply Hnin.
      change k with (fst (k, v)). apply in_map. exact H.
    + apply IH; assumption.
Qed.

Lemma alookup_none {V} k (m : list (bytes*V)) : alookup k m = None <-> ~ In k (map fst m).
Proof.
  induction m as [|[k' v'] r IH]; cbn.
  - split; [intros _ []|reflexivity].
  - destruct (beq k k') eqn:E.
    + apply beq_eq in E. subst k'. split; [discriminate|]. intros H. exfalso. apply H. left. reflexivity.
    + apply beq_neq in E. rewrite IH. split.
      * intros H [H1|H1]; [apply E; symmetry; exact H1|apply H; exact H1].
      * intros H H1. apply H. right. exact H1.
Qed.

Lemma alookup_perm {V} k (m1 m2 : list (bytes*V)) :
  NoDup (map fst m1) -> Permutation m1 m2 -> alookup k m1 = alookup k m2.
Proof.
  intros ND P.
  assert (ND2 : NoDup (map fst m2)).
  { apply (Permutation_NoDup (l := map fst m1)); [|exact ND]. apply Permutation_map. exact P. }
  destruct (alookup k m1) as [v|] eqn:E1.
  - symmetry. apply in_alookup; [exact ND2|].
    apply (Permutation_in _ P). apply alookup_in. exact E1.
  - destruct (alookup k m2) as [v|] eqn:E2; [|reflexivity].
    apply alookup_in in E2. apply (Permutation_in _ (Permutation_sym P)) in E2.
    apply (in_alookup _ _ _ ND) in E2. congruence.
Qed.

(* ------------------------------------------------------------------ white space: strings.TrimSpace *)
Lemma bytes_ind_len (P : bytes -> Prop) :
  (forall s, (forall t, List.length t < List.length s -> P t) -> P s) -> forall s, P s.
Proof.
  intros H s. assert (G : forall n t, List.length t < n -> P t).
  { induction n as [|n IH]; intros t Ht; [lia|]. apply H. intros u Hu. apply IH. lia. }
  apply (G (S (List.length s))). lia.
Qed.

Definition head_ascii (s : bytes) : bool := match s with [] => true | c :: _ => is_ascii c end.
Definition all_space (s : bytes) : Prop := Forall (fun c => is_space c = true) s.
Definition no_space (s : bytes) : Prop := forall c, In c s -> is_space c = false.

Lemma is_space_ascii c : is_space c = true -> is_ascii c = true.
Proof. unfold is_space, is_ascii. cbv zeta. lia. Qed.

(* every byte of a [p2]/[p3] sequence is >= 128 *)
Definition seq_nonascii (p2 : ascii -> ascii -> bool) (p3 : ascii -> ascii -> ascii -> bool) : Prop :=
  (forall a b, p2 a b = true -> is_ascii a = false /\ is_ascii b = false) /\
  (forall a b c, p3 a b c = true -> is_ascii a = false /\ is_ascii b = false /\ is_ascii c = false).

Lemma usp_nonascii : seq_nonascii usp2 usp3.
Proof. split; intros *; unfold usp2, usp3, is_ascii; cbv zeta; lia. Qed.
Lemma uspr_nonascii : seq_nonascii usp2r usp3r.
Proof. split; intros *; unfold usp2r, usp3r, usp2, usp3, is_ascii; cbv zeta; lia. Qed.

Section TrimU.
  Variables (p2 : ascii -> ascii -> bool) (p3 : ascii -> ascii -> ascii -> bool).
  Notation tl_u := (trim_left_u p2 p3).

  (* nothing can be stripped at the left end *)
  Definition lstuck (s : bytes) : bool :=
    match s with [] => true | c :: _ => negb (is_space c) && negb (uprefix p2 p3 s) end.

  Lemma trim_left_u_split s : exists w, s = w ++ tl_u s.
  Proof.
    induction s as [s IH] using bytes_ind_len. destruct s as [|c r]; [exists []; reflexivity|].
    cbn [trim_left_u]. destruct (is_space c).
    { destruct (IH r) as [w E]; [cbn [List.length]; lia|]. exists (c :: w). cbn [app]. f_equal. exact E. }
    destruct r as [|c2 r2]; [exists []; reflexivity|]. destruct (p2 c c2).
    { destruct (IH r2) as [w E]; [cbn [List.length]; lia|]. exists (c :: c2 :: w). cbn [app]. do 2 f_equal. exact E. }
    destruct r2 as [|c3 r3]; [exists []; reflexivity|]. destruct (p3 c c2 c3).
    { destruct (IH r3) as [w E]; [cbn [List.length]; lia|]. exists (c :: c2 :: c3 :: w). cbn [app]. do 3 f_equal. exact E. }
    exists []. reflexivity.
  Qed.

  Lemma trim_left_u_length s : List.length (tl_u s) <= List.length s.
  Proof.
    destruct (trim_left_u_split s) as [w E]. rewrite E at 2. rewrite app_length. lia.
  Qed.

  Lemma trim_left_u_len_fix s : List.length (tl_u s) = List.length s -> tl_u s = s.
  Proof.
    intros H. destruct (trim_left_u_split s) as [w E].
    assert (L : List.length s = List.length w + List.length (tl_u s)) by (rewrite E at 1; apply app_length).
    destruct w as [|x w]; [symmetry; exact E|]. cbn [List.length] in L. lia.
  Qed.

  Lemma lstuck_fix s : lstuck s = true -> tl_u s = s.
  Proof.
    intros H. destruct s as [|c [|c2 [|c3 r3]]]; cbn [lstuck uprefix trim_left_u] in *;
      try reflexivity; destruct (is_space c); cbn [negb andb orb] in H; try discriminate; try reflexivity;
      destruct (p2 c c2); cbn [negb andb orb] in H; try discriminate; try reflexivity;
      destruct (p3 c c2 c3); cbn [negb andb orb] in H; try discriminate; reflexivity.
  Qed.

  Lemma trim_left_u_lstuck s : lstuck (tl_u s) = true.
  Proof.
    induction s as [s IH] using bytes_ind_len. destruct s as [|c r]; [reflexivity|].
    cbn [trim_left_u]. destruct (is_space c) eqn:Ec; [apply IH; cbn [List.length]; lia|].
    destruct r as [|c2 r2]; [cbn [lstuck uprefix]; rewrite Ec; reflexivity|].
    destruct (p2 c c2) eqn:E2; [apply IH; cbn [List.length]; lia|].
    destruct r2 as [|c3 r3]; [cbn [lstuck uprefix]; rewrite Ec, E2; reflexivity|].
    destruct (p3 c c2 c3) eqn:E3; [apply IH; cbn [List.length]; lia|].
    cbn [lstuck uprefix]. rewrite Ec, E2, E3. reflexivity.
  Qed.

  Lemma lstuck_of_fix s : tl_u s = s -> lstuck s = true.
  Proof. intros H. rewrite <- H. apply trim_left_u_lstuck. Qed.

  Lemma trim_left_u_idem s : tl_u (tl_u s) = tl_u s.
  Proof. apply lstuck_fix, trim_left_u_lstuck. Qed.

  Lemma lstuck_prefix a b : lstuck (a ++ b) = true -> lstuck a = true.
  Proof.
    intros H. destruct a as [|c [|c2 [|c3 r3]]]; cbn [app lstuck uprefix] in *; try reflexivity; try exact H.
    - destruct (is_space c); [destruct b; discriminate H|reflexivity].
    - destruct (is_space c); [discriminate H|]. cbn [negb andb] in *.
      destruct (p2 c c2); [discriminate H|reflexivity].
  Qed.

  Lemma trim_left_u_blank pad s : all_space pad -> tl_u (pad ++ s) = tl_u s.
  Proof.
    intros H. induction H as [|c pad Hc Hp IH]; [reflexivity|].
    cbn [app trim_left_u]. rewrite Hc. exact IH.
  Qed.

  Lemma trim_left_u_all_blank pad : all_space pad -> tl_u pad = [].
  Proof. intros H. rewrite <- (app_nil_r pad), trim_left_u_blank by exact H. reflexivity. Qed.

  Lemma trim_left_u_sp c s : is_space c = true -> tl_u (c :: s) = tl_u s.
  Proof. intros H. cbn [trim_left_u]. rewrite H. reflexivity. Qed.

  Hypothesis NA : seq_nonascii p2 p3.

  Lemma p2_ascii_l a b : is_ascii a = true -> p2 a b = false.
  Proof. intros H. destruct (p2 a b) eqn:E; [|reflexivity]. destruct (proj1 NA a b E). congruence. Qed.
  Lemma p2_ascii_r a b : is_ascii b = true -> p2 a b = false.
  Proof. intros H. destruct (p2 a b) eqn:E; [|reflexivity]. destruct (proj1 NA a b E). congruence. Qed.
  Lemma p3_ascii_1 a b c : is_ascii a = true -> p3 a b c = false.
  Proof. intros H. destruct (p3 a b c) eqn:E; [|reflexivity]. destruct (proj2 NA a b c E) as (?&?&?). congruence. Qed.
  Lemma p3_ascii_2 a b c : is_ascii b = true -> p3 a b c = false.
  Proof. intros H. destruct (p3 a b c) eqn:E; [|reflexivity]. destruct (proj2 NA a b c E) as (?&?&?). congruence. Qed.
  Lemma p3_ascii_3 a b c : is_ascii c = true -> p3 a b c = false.
  Proof. intros H. destruct (p3 a b c) eqn:E; [|reflexivity]. destruct (proj2 NA a b c E) as (?&?&?). congruence. Qed.

  Lemma uprefix_head_ascii s : head_ascii s = true -> uprefix p2 p3 s = false.
  Proof.
    destruct s as [|c [|c2 [|c3 r]]]; cbn [head_ascii uprefix]; intros H; try reflexivity.
    - rewrite p2_ascii_l by exact H. reflexivity.
    - rewrite p2_ascii_l, p3_ascii_1 by exact H. reflexivity.
  Qed.

  (* where the ASCII trim stops at an ASCII byte (or at the end), the Unicode trim stops too *)
  Lemma trim_left_u_ascii s : head_ascii (trim_left s) = true -> tl_u s = trim_left s.
  Proof.
    induction s as [|c r IH]; [reflexivity|]. cbn [trim_left trim_left_u].
    destruct (is_space c) eqn:Ec; [exact IH|]. cbn [head_ascii]. intros H.
    destruct r as [|c2 r2]; [reflexivity|]. rewrite p2_ascii_l by exact H.
    destruct r2 as [|c3 r3]; [reflexivity|]. rewrite p3_ascii_1 by exact H. reflexivity.
  Qed.

  (* ASCII blanks after a non-empty stuck string do not complete a sequence *)
  Lemma lstuck_app_blank v pad : v <> [] -> lstuck v = true -> all_space pad -> lstuck (v ++ pad) = true.
  Proof.
    intros Hne Hv Hp.
    assert (A : forall d, In d pad -> is_ascii d = true).
    { intros d Hd. apply is_space_ascii. unfold all_space in Hp. rewrite Forall_forall in Hp. exact (Hp d Hd). }
    destruct v as [|c [|c2 [|c3 r3]]]; [contradiction| | |exact Hv]; cbn [app lstuck uprefix] in *.
    - destruct (is_space c); [discriminate Hv|]. cbn [negb andb].
      destruct pad as [|d [|e pad]]; [reflexivity| |].
      + rewrite p2_ascii_r by (apply A; left; reflexivity). reflexivity.
      + rewrite p2_ascii_r, p3_ascii_2 by (apply A; left; reflexivity). reflexivity.
    - destruct (is_space c); [discriminate Hv|]. cbn [negb andb] in *.
      destruct (p2 c c2); [discriminate Hv|]. cbn [orb].
      destruct pad as [|d pad]; [reflexivity|].
      rewrite p3_ascii_3 by (apply A; left; reflexivity). reflexivity.
  Qed.
End TrimU.

(* ---- strings.TrimSpace ---- *)
Lemma trim_left_go_split s : exists w, s = w ++ trim_left_go s.
Proof. apply trim_left_u_split. Qed.
Lemma trim_right_go_split s : exists w, s = trim_right_go s ++ w.
Proof.
  unfold trim_right_go, trim_left_go_r. destruct (trim_left_u_split usp2r usp3r (rev s)) as [w E].
  exists (rev w). rewrite <- rev_app_distr, <- E, rev_involutive. reflexivity.
Qed.
(* TrimSpace only removes a prefix and a suffix *)
Lemma trim_space_go_split s : exists a b, s = a ++ trim_space_go s ++ b.
Proof.
  destruct (trim_left_go_split s) as [a Ea]. destruct (trim_right_go_split (trim_left_go s)) as [b Eb].
  exists a, b. unfold trim_space_go. rewrite <- Eb. exact Ea.
Qed.
Lemma trim_space_go_in c s : In c (trim_space_go s) -> In c s.
Proof.
  intros H. destruct (trim_space_go_split s) as (a & b & E). rewrite E.
  apply in_or_app. right. apply in_or_app. left. exact H.
Qed.
Lemma trim_space_go_notin c s : ~ In c s -> ~ In c (trim_space_go s).
Proof. intros H I. exact (H (trim_space_go_in c s I)). Qed.
Lemma trim_space_go_length s : List.length (trim_space_go s) <= List.length s.
Proof.
  destruct (trim_space_go_split s) as (a & b & E). rewrite E at 2. rewrite !app_length. lia.
Qed.

Lemma trim_right_go_idem s : trim_right_go (trim_right_go s) = trim_right_go s.
Proof.
  unfold trim_right_go, trim_left_go_r. rewrite rev_involutive, trim_left_u_idem. reflexivity.
Qed.

(* the two fixed-point facts behind idempotence *)
Lemma trim_space_go_lfix s : trim_left_go (trim_space_go s) = trim_space_go s.
Proof.
  unfold trim_space_go. set (a := trim_left_go s).
  apply lstuck_fix. destruct (trim_right_go_split a) as [w E].
  apply (lstuck_prefix usp2 usp3 _ w). rewrite <- E. apply trim_left_u_lstuck.
Qed.
Lemma trim_space_go_rfix s : trim_right_go (trim_space_go s) = trim_space_go s.
Proof. unfold trim_space_go. apply trim_right_go_idem. Qed.
Lemma trim_space_go_idem s : trim_space_go (trim_space_go s) = trim_space_go s.
Proof. unfold trim_space_go at 1. rewrite trim_space_go_lfix. apply trim_space_go_rfix. Qed.

Lemma trim_space_go_fix_inv s : trim_space_go s = s -> trim_left_go s = s /\ trim_right_go s = s.
Proof.
  intros H. rewrite <- H. split; [apply trim_space_go_lfix|apply trim_space_go_rfix].
Qed.
Lemma trim_space_go_fix s : trim_left_go s = s -> trim_right_go s = s -> trim_space_go s = s.
Proof. intros H1 H2. unfold trim_space_go. rewrite H1. exact H2. Qed.

(* leading ASCII white space *)
Lemma trim_space_go_sp c s : is_space c = true -> trim_space_go (c :: s) = trim_space_go s.
Proof. intros H. unfold trim_space_go, trim_left_go. rewrite trim_left_u_sp by exact H. reflexivity. Qed.
Lemma trim_space_go_blank pad s : all_space pad -> trim_space_go (pad ++ s) = trim_space_go s.
Proof. intros H. unfold trim_space_go, trim_left_go. rewrite trim_left_u_blank by exact H. reflexivity. Qed.

(* ASCII padding around a value without surrounding (Unicode) blanks: TrimSpace yields the value *)
Lemma trim_space_go_pads lpad v rpad :
  all_space lpad -> all_space rpad -> trim_space_go v = v -> trim_space_go (lpad ++ v ++ rpad) = v.
Proof.
  intros Hl Hr Hv. destruct (trim_space_go_fix_inv v Hv) as [HL HR].
  rewrite trim_space_go_blank by exact Hl.
  destruct v as [|c r].
  - cbn [app]. unfold trim_space_go, trim_left_go. rewrite trim_left_u_all_blank by exact Hr. reflexivity.
  - unfold trim_space_go.
    assert (E : trim_left_go ((c :: r) ++ rpad) = (c :: r) ++ rpad).
    { apply lstuck_fix. apply (lstuck_app_blank _ _ usp_nonascii); [discriminate| |exact Hr].
      apply lstuck_of_fix. exact HL. }
    rewrite E. unfold trim_right_go, trim_left_go_r. rewrite rev_app_distr.
    rewrite trim_left_u_blank by (apply Forall_rev; exact Hr). exact HR.
Qed.

(* ---- agreement with the ASCII trim ---- *)
Lemma trim_left_nonblank_snoc x c : is_space c = false -> trim_left (x ++ [c]) = trim_left x ++ [c].
Proof.
  intros H. induction x as [|d x IH]; cbn [app trim_left]; [rewrite H; reflexivity|].
  destruct (is_space d); [exact IH|reflexivity].
Qed.
Lemma trim_left_head_nonblank s : match trim_left s with c :: _ => is_space c = false | [] => True end.
Proof.
  induction s as [|c r IH]; cbn [trim_left]; [exact I|].
  destruct (is_space c) eqn:E; [exact IH|exact E].
Qed.
(* the ASCII trim of the right end never touches the first byte the left trim stopped at *)
Lemma trim_space_head s : head_ascii (trim_space s) = head_ascii (trim_left s).
Proof.
  unfold trim_space, trim_right. pose proof (trim_left_head_nonblank s) as H.
  destruct (trim_left s) as [|c r]; [reflexivity|].
  cbn [rev]. rewrite trim_left_nonblank_snoc by exact H. rewrite rev_app_distr. reflexivity.
Qed.

(* sufficient condition: where the ASCII trim stops, at either end, there is an ASCII byte
   (or nothing is left) *)
Theorem trim_space_go_eq s :
  head_ascii (trim_space s) = true -> head_ascii (rev (trim_space s)) = true ->
  trim_space_go s = trim_space s.
Proof.
  intros H1 H2. rewrite trim_space_head in H1.
  unfold trim_space_go, trim_left_go. rewrite (trim_left_u_ascii _ _ usp_nonascii) by exact H1.
  unfold trim_space, trim_right in *. rewrite rev_involutive in H2.
  unfold trim_right_go, trim_left_go_r. rewrite (trim_left_u_ascii _ _ uspr_nonascii) by exact H2.
  reflexivity.
Qed.

Lemma head_ascii_all s : Forall (fun c => is_ascii c = true) s -> head_ascii s = true.
Proof. intros H. destruct H; [reflexivity|assumption]. Qed.
Lemma trim_left_suffix_all (P : ascii -> Prop) s : Forall P s -> Forall P (trim_left s).
Proof.
  intros H. induction H as [|c r Hc Hr IH]; cbn [trim_left]; [constructor|].
  destruct (is_space c); [exact IH|constructor; assumption].
Qed.
Theorem trim_space_go_ascii s : Forall (fun c => is_ascii c = true) s -> trim_space_go s = trim_space s.
Proof.
  intros H.
  assert (A : Forall (fun c => is_ascii c = true) (trim_space s)).
  { unfold trim_space, trim_right. apply Forall_rev, trim_left_suffix_all, Forall_rev, trim_left_suffix_all, H. }
  apply trim_space_go_eq; apply head_ascii_all; [exact A|apply Forall_rev, A].
Qed.

(* a string without ASCII white space that neither begins nor ends with a Unicode space is
   left alone *)
Theorem trim_space_go_nospace s :
  no_space s -> starts_with_uspace s = false -> ends_with_uspace s = false -> trim_space_go s = s.
Proof.
  intros N S E. apply trim_space_go_fix.
  - apply lstuck_fix. unfold lstuck. destruct s as [|c r]; [reflexivity|].
    rewrite (N c (or_introl eq_refl)). unfold starts_with_uspace in S. rewrite S. reflexivity.
  - unfold trim_right_go, trim_left_go_r. rewrite lstuck_fix; [apply rev_involutive|].
    unfold lstuck. unfold ends_with_uspace in E. destruct (rev s) as [|c r] eqn:R; [reflexivity|].
    rewrite E. rewrite (N c); [reflexivity|]. apply in_rev. rewrite R. left. reflexivity.
Qed.
Lemma starts_with_uspace_ascii s : head_ascii s = true -> starts_with_uspace s = false.
Proof. apply uprefix_head_ascii, usp_nonascii. Qed.
Lemma ends_with_uspace_ascii s : head_ascii (rev s) = true -> ends_with_uspace s = false.
Proof. apply uprefix_head_ascii, uspr_nonascii. Qed.
(* necessity: a string ending with a Unicode space is shortened *)
Lemma trim_space_go_ends s : ends_with_uspace s = true -> trim_space_go s <> s.
Proof.
  intros E H. destruct (trim_space_go_fix_inv s H) as [_ HR].
  unfold trim_right_go, trim_left_go_r in HR.
  assert (L : lstuck usp2r usp3r (rev s) = true).
  { apply lstuck_of_fix. rewrite <- HR at 2. rewrite rev_involutive. reflexivity. }
  unfold lstuck in L. unfold ends_with_uspace in E. destruct (rev s); [discriminate E|].
  rewrite E in L. destruct (is_space a); discriminate L.
Qed.

(* examples (checked against go1.23 strings.TrimSpace, see the validation table in DESIGN) *)
Example trim_space_go_ex1 :
  trim_space_go (map ascii_of_nat [194;160;97;98;99;226;128;131;32;227;128;128]) = s2b "abc".
Proof. vm_compute. reflexivity. Qed.
Example trim_space_go_ex2 :    (* a lone A0, a lone C2 and U+200B are not white space *)
  trim_space_go (map ascii_of_nat [160]) = map ascii_of_nat [160] /\
  trim_space_go (map ascii_of_nat [97;194;160;194]) = map ascii_of_nat [97;194;160;194] /\
  trim_space_go (map ascii_of_nat [226;128;139]) = map ascii_of_nat [226;128;139].
Proof. vm_compute. repeat split. Qed.

(* ---- decimal numbers are ASCII and blank-free: TrimSpace leaves them alone ---- *)
Lemma is_digit_ascii c : is_digit c = true -> is_ascii c = true.
Proof. unfold is_digit, is_ascii. cbv zeta. lia. Qed.
Lemma is_digit_not_space c : is_digit c = true -> is_space c = false.
Proof. unfold is_digit, is_space. cbv zeta. lia. Qed.
Theorem trim_space_go_ascii_nospace s :
  Forall (fun c => is_ascii c = true) s -> no_space s -> trim_space_go s = s.
Proof.
  intros A N. apply trim_space_go_nospace; [exact N| |].
  - apply starts_with_uspace_ascii, head_ascii_all, A.
  - apply ends_with_uspace_ascii, head_ascii_all, Forall_rev, A.
Qed.
Lemma itoa_ascii z : Forall (fun c => is_ascii c = true) (itoa z).
Proof.
  eapply Forall_impl; [|apply itoa_chars]. intros c [H| ->]; [apply is_digit_ascii, H|reflexivity].
Qed.
Lemma itoa_no_space z : no_space (itoa z).
Proof.
  intros c I. pose proof (itoa_chars z) as F. rewrite Forall_forall in F.
  destruct (F c I) as [D| ->]; [apply is_digit_not_space, D|reflexivity].
Qed.
Lemma trim_space_go_itoa z : trim_space_go (itoa z) = itoa z.
Proof. apply trim_space_go_ascii_nospace; [apply itoa_ascii|apply itoa_no_space]. Qed.

Lemma digits_val_ascii s : forall a v, digits_val s a = Some v -> Forall (fun c => is_ascii c = true) s.
Proof.
  induction s as [|c r IH]; intros a v H; [constructor|]. cbn [digits_val] in H.
  destruct (is_digit c) eqn:E; [|discriminate]. constructor; [apply is_digit_ascii, E|exact (IH _ _ H)].
Qed.
Lemma atoi_ascii s z : atoi s = Some z -> Forall (fun c => is_ascii c = true) s.
Proof.
  unfold atoi. destruct s as [|c r]; [discriminate|]. cbv zeta.
  destruct (Ascii.eqb c "-" || Ascii.eqb c "+")%bool eqn:Sg.
  - destruct r as [|d r']; [discriminate|]. destruct (digits_val (d :: r') 0) as [v|] eqn:D; [|discriminate].
    intros _. constructor; [|exact (digits_val_ascii _ _ _ D)].
    apply orb_true_iff in Sg. destruct Sg as [Q|Q]; apply Ascii.eqb_eq in Q; subst c; reflexivity.
  - destruct (digits_val (c :: r) 0) as [v|] eqn:D; [|discriminate]. intros _. exact (digits_val_ascii _ _ _ D).
Qed.

(* ------------------------------------------------------------------ strings.Fields *)
(* the three unfoldings of [fields_go_aux] at a non-empty string *)
Lemma fields_go_aux_sp c r cur :
  is_space c = true -> fields_go_aux (c :: r) cur = flush_field cur (fields_go_aux r []).
Proof. intros H. cbn [fields_go_aux]. rewrite H. reflexivity. Qed.

(* a byte that is neither a blank nor the beginning of a Unicode space joins the current field *)
Lemma fields_go_aux_step c r cur :
  is_space c = false -> starts_with_uspace (c :: r) = false ->
  fields_go_aux (c :: r) cur = fields_go_aux r (c :: cur).
Proof.
  intros Hc Hu. cbn [fields_go_aux]. rewrite Hc.
  destruct r as [|c2 r2]; [reflexivity|].
  unfold starts_with_uspace, uprefix in Hu. apply orb_false_iff in Hu. destruct Hu as [H2 H3]. rewrite H2.
  destruct r2 as [|c3 r3]; [reflexivity|]. rewrite H3. reflexivity.
Qed.

(* a Unicode space ends the current field; the scan goes on behind it *)
Lemma fields_go_aux_usp c r cur :
  is_space c = false -> starts_with_uspace (c :: r) = true ->
  exists w r', r = w ++ r' /\ fields_go_aux (c :: r) cur = flush_field cur (fields_go_aux r' []).
Proof.
  intros Hc Hu. cbn [fields_go_aux]. rewrite Hc. unfold starts_with_uspace, uprefix in Hu.
  destruct r as [|c2 r2]; [discriminate Hu|].
  destruct (usp2 c c2) eqn:E2.
  - exists [c2], r2. split; reflexivity.
  - cbn [orb] in Hu. destruct r2 as [|c3 r3]; [discriminate Hu|]. rewrite Hu.
    exists [c2; c3], r3. split; reflexivity.
Qed.

(* without Unicode-space sequences, strings.Fields is the ASCII split *)
Lemma fields_go_aux_no_usp s : forall cur, no_usp s = true -> fields_go_aux s cur = fields_aux s cur.
Proof.
  induction s as [|c r IH]; intros cur H.
  - destruct cur; reflexivity.
  - cbn [no_usp] in H. apply andb_true_iff in H. destruct H as [Hu Hr]. apply negb_true_iff in Hu.
    destruct (is_space c) eqn:Ec.
    + rewrite fields_go_aux_sp by exact Ec. cbn [fields_aux]. rewrite Ec, (IH [] Hr). destruct cur; reflexivity.
    + rewrite fields_go_aux_step by assumption. cbn [fields_aux]. rewrite Ec. apply IH, Hr.
Qed.
Theorem fields_go_no_usp s : no_usp s = true -> fields_go s = fields s.
Proof. apply fields_go_aux_no_usp. Qed.

Lemma no_usp_ascii s : forallb is_ascii s = true -> no_usp s = true.
Proof.
  induction s as [|c r IH]; [reflexivity|]. cbn [forallb no_usp]. intros H.
  apply andb_true_iff in H. destruct H as [Hc Hr].
  rewrite (starts_with_uspace_ascii (c :: r)) by exact Hc. exact (IH Hr).
Qed.
Theorem fields_go_ascii s : forallb is_ascii s = true -> fields_go s = fields s.
Proof. intros H. apply fields_go_no_usp, no_usp_ascii, H. Qed.

Lemma no_usp_tail c s : no_usp (c :: s) = true -> no_usp s = true.
Proof. cbn [no_usp]. intros H. apply andb_true_iff in H. exact (proj2 H). Qed.
Lemma no_usp_suffix a b : no_usp (a ++ b) = true -> no_usp b = true.
Proof. induction a as [|x a IH]; [trivial|]. intros H. apply IH. exact (no_usp_tail _ _ H). Qed.

(* an ASCII byte between two strings: no sequence spans it *)
Lemma no_usp_app_ascii a c b :
  no_usp a = true -> is_ascii c = true -> no_usp b = true -> no_usp (a ++ c :: b) = true.
Proof.
  intros Ha Hc Hb. induction a as [|x a IH].
  - cbn [app no_usp]. rewrite (starts_with_uspace_ascii (c :: b)) by exact Hc. exact Hb.
  - cbn [no_usp] in Ha. apply andb_true_iff in Ha. destruct Ha as [Hx Ha]. apply negb_true_iff in Hx.
    change ((x :: a) ++ c :: b) with (x :: (a ++ c :: b)). cbn [no_usp]. rewrite (IH Ha), andb_true_r.
    apply negb_true_iff. unfold starts_with_uspace, uprefix in *.
    destruct a as [|y [|z a]]; cbn [app] in *.
    + rewrite (p2_ascii_r _ _ usp_nonascii) by exact Hc.
      destruct b; [reflexivity|]. rewrite (p3_ascii_2 _ _ usp_nonascii) by exact Hc. reflexivity.
    + rewrite orb_false_r in Hx. rewrite Hx. rewrite (p3_ascii_3 _ _ usp_nonascii) by exact Hc. reflexivity.
    + exact Hx.
Qed.
Lemma no_usp_app_ascii_l a b : forallb is_ascii a = true -> no_usp b = true -> no_usp (a ++ b) = true.
Proof.
  intros Ha Hb. induction a as [|x a IH]; [exact Hb|]. cbn [forallb] in Ha.
  apply andb_true_iff in Ha. destruct Ha as [Hx Ha]. cbn [app no_usp].
  rewrite (starts_with_uspace_ascii (x :: a ++ b)) by exact Hx. exact (IH Ha).
Qed.

Lemma no_usp_ascii_F s : Forall (fun c => is_ascii c = true) s -> no_usp s = true.
Proof. intros H. apply no_usp_ascii, forallb_forall. apply Forall_forall. exact H. Qed.
Lemma no_usp_app_ascii_r a b : no_usp a = true -> forallb is_ascii b = true -> no_usp (a ++ b) = true.
Proof.
  intros Ha Hb. destruct b as [|c b]; [rewrite app_nil_r; exact Ha|].
  cbn [forallb] in Hb. apply andb_true_iff in Hb. destruct Hb as [Hc Hb].
  apply no_usp_app_ascii; [exact Ha|exact Hc|apply no_usp_ascii, Hb].
Qed.
(* "a SP b": two blank-free non-empty words without Unicode spaces *)
Lemma fields_go_two_words a b : no_usp a = true -> no_usp b = true ->
  fields_go (a ++ " "%char :: b) = fields (a ++ " "%char :: b).
Proof. intros Ha Hb. apply fields_go_no_usp, no_usp_app_ascii; [exact Ha|reflexivity|exact Hb]. Qed.

(* every field is non-empty and free of ASCII white space *)
Lemma fields_go_aux_spec s : forall cur, no_space cur ->
  Forall (fun f => f <> [] /\ no_space f) (fields_go_aux s cur).
Proof.
  induction s as [s IH] using bytes_ind_len. intros cur Hc.
  assert (FL : forall k, Forall (fun f => f <> [] /\ no_space f) k ->
                         Forall (fun f => f <> [] /\ no_space f) (flush_field cur k)).
  { intros k Hk. destruct cur as [|x cur']; [exact Hk|]. cbn [flush_field]. constructor; [|exact Hk]. split.
    - intros E. apply (f_equal (@List.length _)) in E. rewrite rev_length in E. discriminate E.
    - intros d Hd. apply Hc. apply in_rev. exact Hd. }
  assert (NS : no_space []) by (intros d []).
  destruct s as [|c r]; [cbn [fields_go_aux]; apply FL; constructor|].
  destruct (is_space c) eqn:Ec.
  - rewrite fields_go_aux_sp by exact Ec. apply FL, IH; [cbn [List.length]; lia|exact NS].
  - destruct (starts_with_uspace (c :: r)) eqn:Eu.
    + destruct (fields_go_aux_usp c r cur Ec Eu) as (w & r' & -> & ->).
      apply FL, IH; [cbn [List.length]; rewrite app_length; lia|exact NS].
    + rewrite fields_go_aux_step by assumption. apply IH; [cbn [List.length]; lia|].
      intros d [<-|Hd]; [exact Ec|exact (Hc d Hd)].
Qed.
Theorem fields_go_spec s f : In f (fields_go s) -> f <> [] /\ no_space f.
Proof.
  intros H. pose proof (fields_go_aux_spec s [] (fun d (F : In d []) => match F with end)) as A.
  rewrite Forall_forall in A. exact (A f H).
Qed.
Theorem fields_go_nonempty s : Forall (fun f => f <> []) (fields_go s).
Proof. apply Forall_forall. intros f H. exact (proj1 (fields_go_spec s f H)). Qed.

(* examples (strings.Fields of go1.23) *)
Example fields_go_ex1 : fields_go (s2b "a b") = [s2b "a"; s2b "b"] /\ fields_go (s2b " a  b ") = [s2b "a"; s2b "b"].
Proof. vm_compute. split; reflexivity. Qed.
Example fields_go_ex2 :    (* U+00A0; U+0085 followed by U+3000 *)
  fields_go (map ascii_of_nat [97;194;160;98]) = [s2b "a"; s2b "b"] /\
  fields_go (map ascii_of_nat [97;194;133;227;128;128;98]) = [s2b "a"; s2b "b"].
Proof. vm_compute. split; reflexivity. Qed.
Example fields_go_ex3 :    (* a lone A0 and U+200B are not white space: one field *)
  fields_go (map ascii_of_nat [97;160;98]) = [map ascii_of_nat [97;160;98]] /\
  fields_go (map ascii_of_nat [97;226;128;139;98]) = [map ascii_of_nat [97;226;128;139;98]].
Proof. vm_compute. split; reflexivity. Qed.
Example fields_go_ex4 : fields_go (map ascii_of_nat [226;128;128]) = [] /\ fields_go [] = [].
Proof. vm_compute. split; reflexivity. Qed.
Example fields_go_ex5 :    (* the ASCII split keeps them together *)
  fields (map ascii_of_nat [97;194;160;98]) = [map ascii_of_nat [97;194;160;98]].
Proof. vm_compute. reflexivity. Qed.
