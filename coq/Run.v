(* Run.v — one entry point per correspondence component: decode the case, run the MODEL,
   encode the observation.  [run] is what the extracted CLI calls; [judge] applies the
   executable property predicates of Spec.v to an observation made on the IMPLEMENTATION. *)
From Coq Require Import List Ascii String ZArith Bool.
From Model Require Import Bytes Wire Glob StaticRoute Spec.
Import ListNotations.

Definition decode_error : list bytes := [s2b "decode-error"].

(* ---- findroute: n (proto dest nexthop)*n  host ---- *)
Definition d_route_cfg : dec (list (bytes * (bytes * bytes))) :=
  d_list (d_pair d_bytes (d_pair d_bytes d_bytes)).
Definition build_table (cfg : list (bytes * (bytes * bytes))) : route_table :=
  fold_left (fun t '(p, (d, n)) => add_route_item t p d n) cfg [].
Definition e_route_result (o : option route_item) : list bytes :=
  e_opt (fun it => [ri_proto it; ri_host it; e_int (ri_port it)]) o.
Definition run_findroute (args : list bytes) : list bytes :=
  match run_dec (d_pair d_route_cfg (d_pair d_bytes d_int)) args with
  | Some (cfg, (host, _)) => e_route_result (find_route (build_table cfg) host)
  | None => decode_error
  end.

(* judge: case tokens, then the implementation's observation: n distinct answers *)
Definition d_answer : dec (option c18_answer) :=
  dlet tag := d_bytes in
  if beq tag (s2b "some") then
    dlet p := d_bytes in dlet h := d_bytes in dlet n := d_int in d_ret (Some (p, (h, n)))
  else d_ret None.
Definition ok_tok (b : bool) : list bytes := [if b then s2b "ok" else s2b "bad"].
Definition judge_findroute (args : list bytes) : list bytes :=
  match run_dec (d_pair (d_pair d_route_cfg (d_pair d_bytes d_int)) (d_list d_answer)) args with
  | Some ((cfg, (host, _)), obs) => ok_tok (judge_C18 cfg host obs)
  | None => decode_error
  end.

Definition run (comp : bytes) (args : list bytes) : list bytes :=
  if beq comp (s2b "findroute") then run_findroute args
  else [s2b "unknown-component"].

Definition judge (comp : bytes) (args : list bytes) : list bytes :=
  if beq comp (s2b "findroute") then judge_findroute args
  else [s2b "unknown-component"].
