(* Run.v — one entry point per correspondence component: decode the case, run the MODEL,
   encode the observation.  [run] is what the extracted CLI calls; [judge] applies the
   executable property predicates of Spec.v to an observation made on the IMPLEMENTATION. *)
From Coq Require Import List Ascii String ZArith Bool.
From Model Require Import Bytes Wire Glob StaticRoute RoundRobin Pins Resolver SendFault Codec Message Spec SpecC14 SpecC16 SpecC15 SpecC19 SpecC05 SpecC20 RunProxy RunBufio SpecProxy SpecProxy2.
From Model Require RunProxyTB RunProxySp.
Import ListNotations.

Definition decode_error : list bytes := [s2b "decode-error"].

(* ---- findroute: n (proto dest nexthop)*n  host ---- *)
Definition d_route_cfg : dec (list (bytes * (bytes * bytes))) :=
  d_list (d_pair d_bytes (d_pair d_bytes d_bytes)).
Definition build_table (cfg : list (bytes * (bytes * bytes))) : route_table :=
  fold_left (fun t '(p, (d, n)) => add_route_item t p d n) cfg [].
Definition e_route_result (o : option route_item) : list bytes :=
  e_opt (fun it => [ri_proto it; ri_host it; e_int (ri_port it)]) o.
Definition run_findroute (args : list bytes) : list bytes :=
  match run_dec (d_pair d_route_cfg (d_pair d_bytes d_int)) args with
  | Some (cfg, (host, _)) => e_route_result (find_route (build_table cfg) host)
  | None => decode_error
  end.

(* judge: case tokens, then the implementation's observation: n distinct answers *)
Definition d_answer : dec (option c18_answer) :=
  dlet tag := d_bytes in
  if beq tag (s2b "some") then
    dlet p := d_bytes in dlet h := d_bytes in dlet n := d_int in d_ret (Some (p, (h, n)))
  else d_ret None.
Definition ok_tok (b : bool) : list bytes := [if b then s2b "ok" else s2b "bad"].
Definition judge_findroute (args : list bytes) : list bytes :=
  match run_dec (d_pair (d_pair d_route_cfg (d_pair d_bytes d_int)) (d_list d_answer)) args with
  | Some ((cfg, (host, _)), obs) => ok_tok (judge_C18 cfg host obs)
  | None => decode_error
  end.

(* ---- findroute-seq: n (proto dest nexthop)*n  m host*m : the hosts are looked up one after the other on ONE
        table object; the observation is m answers.  In the model a look-up is a function of table and host, so an
        answer that depends on the look-ups before it is a disagreement (and the judge rejects it). ---- *)
Definition run_findroute_seq (args : list bytes) : list bytes :=
  match run_dec (d_pair d_route_cfg (d_list d_bytes)) args with
  | Some (cfg, hosts) =>
      let t := build_table cfg in
      e_nat (List.length hosts) :: flat_map (fun h => e_route_result (find_route t h)) hosts
  | None => decode_error
  end.
Definition judge_findroute_seq (args : list bytes) : list bytes :=
  match run_dec (d_pair (d_pair d_route_cfg (d_list d_bytes)) (d_list d_answer)) args with
  | Some ((cfg, hosts), obs) =>
      let ha := combine hosts obs in
      ok_tok (Nat.eqb (List.length hosts) (List.length obs) &&
              forallb (fun '(h, a) => judge_C18 cfg h [a]) ha &&
              (* the same host gets the same answer every time, whatever was looked up in between *)
              forallb (fun '(h, a) => forallb (fun '(h', a') => if beq h h' then c18_opt_eqb a a' else true) ha) ha)
  | None => decode_error
  end.

(* ---- rr: nops {op arg}..   op = add|remove|dispatch ---- *)
Definition d_rr_op : dec rr_op :=
  dlet o := d_bytes in dlet a := d_bytes in
  if beq o (s2b "add") then d_ret (RAdd a)
  else if beq o (s2b "remove") then d_ret (RRemove a)
  else if beq o (s2b "dispatch") then d_ret RDispatch
  else (fun _ => None).
Definition e_rr_out (o : rr_out) : list bytes :=
  match o with
  | OAdded => [s2b "added"]
  | ORemoved c => [s2b "removed"; e_bool c]
  | OSent None => [s2b "sent"; s2b "none"]
  | OSent (Some a) => [s2b "sent"; a]
  end.
Definition run_rr (args : list bytes) : list bytes :=
  match run_dec (d_list d_rr_op) args with
  | Some ops => let '(s, outs) := rr_run rr_init ops in
                flat_map e_rr_out outs ++ [s2b "final"] ++ e_list (fun a => [a]) (rr_backends s)
  | None => decode_error
  end.

(* ---- pins: timeout_s nops {op k b n}..   op = add|get|remove|adv ---- *)
Definition d_pin_op : dec pin_op :=
  dlet o := d_bytes in dlet k := d_bytes in dlet b := d_bytes in dlet n := d_int in
  if beq o (s2b "add") then d_ret (PAdd k b n)
  else if beq o (s2b "get") then d_ret (PGet k)
  else if beq o (s2b "remove") then d_ret (PRemove k)
  else if beq o (s2b "adv") then d_ret (PAdvance n)
  else (fun _ => None).
Definition e_pin_out (o : pin_out * nat) : list bytes :=
  (match fst o with
   | PNone => [s2b "-"]
   | PGot None => [s2b "none"]
   | PGot (Some b) => [b]
   end) ++ [e_nat (snd o)].
Definition run_pins (args : list bytes) : list bytes :=
  match run_dec (d_pair d_int (d_list d_pin_op)) args with
  | Some (t, ops) => flat_map e_pin_out (snd (pins_run (0%Z, pins_new t 0%Z) ops))
  | None => decode_error
  end.

(* ---- resolver: port nsteps { fail | ok n addr.. }.. ---- *)
Definition d_outcome : dec outcome :=
  dlet o := d_bytes in
  if beq o (s2b "fail") then d_ret RFail
  else if beq o (s2b "ok") then dlet l := d_list d_bytes in d_ret (ROk l)
  else (fun _ => None).
Fixpoint resolver_run (port : bytes) (st : rentry * rr) (os : list outcome) : list bytes :=
  match os with
  | [] => []
  | o :: r =>
      let '(st', outs) := resolver_step port st o in
      (e_list (fun a => [a]) (rr_backends (snd st'))
       ++ [e_nat (List.length (filter (fun x => match x with ORemoved true => true | _ => false end) outs))]
       ++ e_list (fun a => [a]) (re_addrs (fst st')))
      ++ resolver_run port st' r
  end.
Definition run_resolver (args : list bytes) : list bytes :=
  match run_dec (d_pair d_bytes (d_list d_outcome)) args with
  | Some (port, os) => resolver_run port (rentry_init, rr_init) os
  | None => decode_error
  end.

(* ---- sendfault:  kind nsends primary sec_present secondary, then per send: ndials {nscript bit..}..
     kind = client | backend ; primary/secondary = absent | conn nscript bit..
     a send's dial attempts beyond its plan are refused  ---- *)
Definition d_script : dec conn_script := d_list d_bool.
Definition d_cached : dec (option conn_script) :=
  dlet o := d_bytes in
  if beq o (s2b "absent") then d_ret None
  else dlet s := d_script in d_ret (Some s).
(* observation of one send: see SpecC20.send_obs *)
Definition e_counts (c : conn_counts) : list bytes := [e_nat (cc_ok c); e_nat (cc_fail c); e_nat (cc_close c)].
Definition e_obs (o : send_obs) : list bytes :=
  [e_bool (so_ok o); e_nat (so_dials o)] ++ e_counts (so_c0 o) ++ e_counts (so_c1 o) ++
  e_list (fun n => [e_nat n]) (so_dialled o).
Definition e_send_obs (next : nat) (tr : list io_event) (ok : bool) : list bytes :=
  e_obs (obs_of_trace next tr ok).
Definition with_plan (w : world) (plan : list conn_script) : world :=
  {| w_conns := w_conns w; w_dials := map Some plan ++ [None; None; None; None]; w_next := w_next w |}.
Fixpoint sendfault_client (plans : list (list conn_script)) (f : failover) (w : world) : list bytes :=
  match plans with
  | [] => []
  | pl :: r => let '(f', w', tr, ok) := failover_send f (with_plan w pl) in
               e_send_obs (w_next w') tr ok ++ sendfault_client r f' w'
  end.
Fixpoint sendfault_backend (plans : list (list conn_script)) (c : option nat) (w : world) : list bytes :=
  match plans with
  | [] => []
  | pl :: r => let '(c', w', tr, ok) := tcp_backend_send c (with_plan w pl) in
               e_send_obs (w_next w') tr ok ++ sendfault_backend r c' w'
  end.
Definition run_sendfault (args : list bytes) : list bytes :=
  match run_dec (dlet kind := d_bytes in dlet n := d_nat in
                 dlet pri := d_cached in dlet sec_present := d_bool in dlet sec := d_cached in
                 dlet plans := d_rep (d_list d_script) n in d_ret (kind, pri, sec_present, sec, plans)) args with
  | Some (kind, pri, sec_present, sec, plans) =>
      let conns := (match pri with Some s => [(0%nat, s)] | None => [] end) ++
                   (match sec with Some s => [(1%nat, s)] | None => [] end) in
      let w := {| w_conns := conns; w_dials := []; w_next := 2%nat |} in
      if beq kind (s2b "client") then
        let f := {| fo_primary := match pri with
                                  | Some _ => Some {| tc_conn := Some 0%nat; tc_reconnectable := false |}
                                  | None => None end;
                    fo_secondary := if sec_present
                                    then Some {| tc_conn := match sec with Some _ => Some 1%nat | None => None end;
                                                 tc_reconnectable := true |}
                                    else None |} in
        sendfault_client plans f w
      else sendfault_backend plans (match pri with Some _ => Some 0%nat | None => None end) w
  | None => decode_error
  end.

(* ---- dialog: n { message-bytes + abstract reading }..  -> per message: ok id | err ---- *)
Definition d_dialog_case : dec (list (bytes * c16_msg)) := d_list (d_pair d_bytes d_c16_msg).
Definition dialog_of_bytes (b : bytes) : list bytes :=
  match parse_message b with
  | Ok (m, _) => match get_dialog m with
                 | Ok (_, d) => [s2b "ok"; d]
                 | Err => [s2b "err"]
                 | Panic => [s2b "panic"]
                 end
  | Err => [s2b "parse-err"]
  | Panic => [s2b "panic"]
  end.
Definition run_dialog (args : list bytes) : list bytes :=
  match run_dec d_dialog_case args with
  | Some l => flat_map (fun '(b, _) => dialog_of_bytes b) l
  | None => decode_error
  end.

Definition run (comp : bytes) (args : list bytes) : list bytes :=
  if beq comp (s2b "findroute") then run_findroute args
  else if beq comp (s2b "findroute-seq") then run_findroute_seq args
  else if beq comp (s2b "rr") then run_rr args
  else if beq comp (s2b "pins") then run_pins args
  else if beq comp (s2b "resolver") then run_resolver args
  else if beq comp (s2b "sendfault") then run_sendfault args
  else if beq comp (s2b "codec") then run_codec args
  else if beq comp (s2b "codecgen") then run_codecgen args
  else if beq comp (s2b "dialog") then run_dialog args
  else if beq comp (s2b "proxy") then run_proxy args
  else if beq comp (s2b "proxytb") then RunProxyTB.run_proxytb args
  else if beq comp (s2b "proxysp") then RunProxySp.run_proxysp args
  else match run_bufio comp args with Some r => r | None => [s2b "unknown-component"] end.

(* codec: kind text nexpected expected.. then the observation *)
Definition judge_codec (args : list bytes) : list bytes :=
  match (dlet _ := d_bytes in dlet _ := d_bytes in d_list d_bytes) args with
  | Some ([e], obs) =>
      (* known-finding stream: only the host the text denotes is demanded *)
      if has_prefix (s2b "host=") e
      then ok_tok (match nth_opt obs 5 with Some h => beq h (skipn 5 e) | None => false end)
      else ok_tok (judge_C14 [e] obs)
  | Some (expected, obs) => ok_tok (judge_C14 expected obs)
  | None => decode_error
  end.

Definition d_oid : dec (option bytes) :=
  dlet t := d_bytes in if beq t (s2b "ok") then (dlet d := d_bytes in d_ret (Some d)) else d_ret None.
Definition judge_dialog (args : list bytes) : list bytes :=
  match d_dialog_case args with
  | Some (l, obs) =>
      match run_dec (d_rep d_oid (List.length l)) obs with
      | Some ids =>
          match judge_C16 (combine (map snd l) ids) with
          | None => [s2b "ok"]
          | Some (i, j, why) => [s2b "bad"; e_nat i; e_nat j; e_nat why]
          end
      | None => decode_error
      end
  | None => decode_error
  end.

(* rr: case, then per op its output, then "final" and the rotation list *)
Fixpoint d_rr_outs (ops : list rr_op) : dec (list rr_out) :=
  match ops with
  | [] => d_ret []
  | o :: r =>
      dlet tag := d_bytes in
      dlet x := (if beq tag (s2b "added") then d_ret OAdded
                 else if beq tag (s2b "removed") then (dlet c := d_bool in d_ret (ORemoved c))
                 else if beq tag (s2b "sent") then
                   (dlet a := d_bytes in d_ret (OSent (if beq a (s2b "none") then None else Some a)))
                 else (fun _ => None)) in
      dlet rest := d_rr_outs r in d_ret (x :: rest)
  end.
Definition judge_rr (args : list bytes) : list bytes :=
  match d_list d_rr_op args with
  | Some (ops, obs) =>
      match run_dec (dlet outs := d_rr_outs ops in dlet _ := d_bytes in dlet fin := d_list d_bytes in
                     d_ret (outs, fin)) obs with
      | Some (outs, fin) => ok_tok (negb (rr_domain ops) || judge_C05 ops outs fin)
      | None => decode_error
      end
  | None => decode_error
  end.

(* pins: case, then per op: result token + table size *)
Definition d_pin_obs : dec (pin_out * nat) :=
  dlet r := d_bytes in dlet n := d_nat in
  d_ret (if beq r (s2b "-") then PNone else if beq r (s2b "none") then PGot None else PGot (Some r), n).
Definition judge_pins (args : list bytes) : list bytes :=
  match d_pair d_int (d_list d_pin_op) args with
  | Some ((t, ops), obs) =>
      match run_dec (d_rep d_pin_obs (List.length ops)) obs with
      | Some outs => ok_tok (pins_domain t ops && judge_C15 t ops outs)
      | None => decode_error
      end
  | None => decode_error
  end.

(* resolver: case, then per step: rotation list, removal notifications, entry addresses *)
Definition d_res_obs : dec (list bytes * nat * list bytes) :=
  dlet rot := d_list d_bytes in dlet n := d_nat in dlet ent := d_list d_bytes in d_ret (rot, n, ent).
Definition judge_resolver (args : list bytes) : list bytes :=
  match d_pair d_bytes (d_list d_outcome) args with
  | Some ((port, os), obs) =>
      match run_dec (d_rep d_res_obs (List.length os)) obs with
      | Some o => ok_tok (c19_domain os && judge_C19 port os o)
      | None => decode_error
      end
  | None => decode_error
  end.

(* sendfault: case, then per send the counts of e_obs *)
Definition d_counts : dec conn_counts :=
  dlet a := d_nat in dlet b := d_nat in dlet c := d_nat in d_ret {| cc_ok := a; cc_fail := b; cc_close := c |}.
Definition d_send_obs : dec send_obs :=
  dlet ok := d_bool in dlet d := d_nat in dlet c0 := d_counts in dlet c1 := d_counts in dlet l := d_list d_nat in
  d_ret {| so_ok := ok; so_dials := d; so_c0 := c0; so_c1 := c1; so_dialled := l |}.
Definition d_sendfault_case : dec nat :=
  dlet kind := d_bytes in dlet n := d_nat in
  dlet pri := d_cached in dlet sec_present := d_bool in dlet sec := d_cached in
  dlet plans := d_rep (d_list d_script) n in d_ret n.
Definition judge_sendfault (args : list bytes) : list bytes :=
  match d_sendfault_case args with
  | Some (n, obs) =>
      match run_dec (d_rep d_send_obs n) obs with
      | Some l => ok_tok (forallb judge_C20_obs l)
      | None => decode_error
      end
  | None => decode_error
  end.

Definition judge (comp : bytes) (args : list bytes) : list bytes :=
  if beq comp (s2b "findroute") then judge_findroute args
  else if beq comp (s2b "findroute-seq") then judge_findroute_seq args
  else if beq comp (s2b "codec") then judge_codec args
  else if beq comp (s2b "dialog") then judge_dialog args
  else if beq comp (s2b "rr") then judge_rr args
  else if beq comp (s2b "pins") then judge_pins args
  else if beq comp (s2b "resolver") then judge_resolver args
  else if beq comp (s2b "sendfault") then judge_sendfault args
  else if beq comp (s2b "proxy-C01") then judge_proxy_with judge_C01_event args
  else if beq comp (s2b "proxy-C02") then judge_proxy_with judge_C02_event args
  else if beq comp (s2b "proxy-C03") then judge_proxy_with judge_C03_event args
  else if beq comp (s2b "proxy-C06") then judge_proxy_with judge_C06_event args
  else if beq comp (s2b "proxy-C07") then judge_proxy_with judge_C07_event args
  else if beq comp (s2b "proxy-C13") then judge_proxy_with judge_C13_event args
  else if beq comp (s2b "proxy-C04") then judge_proxy_hist 0 args
  else if beq comp (s2b "proxy-C12") then judge_proxy_hist 1 args
  else if beq comp (s2b "proxy-C17") then judge_proxy_twin args
  else if beq comp (s2b "proxytb-C01") then RunProxyTB.judge_tb_with false judge_C01_event args
  else if beq comp (s2b "proxytb-C06") then RunProxyTB.judge_tb_with false judge_C06_event args
  else if beq comp (s2b "proxytb-C07") then RunProxyTB.judge_tb_with false judge_C07_event args
  else if beq comp (s2b "proxytb-C02") then RunProxyTB.judge_tb_with false judge_C02_event args
  else if beq comp (s2b "proxytb-C03") then RunProxyTB.judge_tb_with true judge_C03_event args
  else if beq comp (s2b "proxytb-C04") then RunProxyTB.judge_tb_hist args
  else if beq comp (s2b "proxytb-C12") then RunProxyTB.judge_tb_hist12 args
  else match judge_bufio comp args with Some r => r | None => [s2b "unknown-component"] end.
