(* Spec.v — the properties as EXECUTABLE predicates over observables only.
   Each judge reads a case (the input) and an observation (what the implementation, or the
   model, produced) and says whether the property's statement holds of that pair.  The
   judges share no code with the model beyond Bytes.v / Glob.v primitives whose meaning is
   proved separately (glob_correct, split/join lemmas). *)
From Coq Require Import List Ascii String ZArith Bool.
From Model Require Import Bytes Glob.
Import ListNotations.
Open Scope Z_scope.

(* ------------------------------------------------------------------ C18 *)
(* configuration entry as written in the YAML: protocol, dest pattern, next hop text *)
Definition c18_entry := (bytes * (bytes * bytes))%type.
(* an answer: protocol, host, port *)
Definition c18_answer := (bytes * (bytes * Z))%type.

Definition c18_answer_eqb (a b : c18_answer) : bool :=
  let '(p1, (h1, n1)) := a in let '(p2, (h2, n2)) := b in
  beq p1 p2 && beq h1 h2 && Z.eqb n1 n2.

(* "a next hop written host:port yields that port, or 5060 (5061 for tls) when omitted";
   entries whose port text is not a number are rejected by the configuration loader *)
Definition c18_nexthop (proto nexthop : bytes) : option (bytes * Z) :=
  match last_index_byte ":"%char nexthop with
  | None => Some (nexthop, if equal_fold proto (s2b "tls") then 5061 else 5060)
  | Some i => match atoi (skipn (S i) nexthop) with
              | Some p => Some (firstn i nexthop, p)
              | None => None
              end
  end.

(* effective entries: valid ones; a later entry for the same dest replaces the earlier *)
Definition c18_valid (cfg : list c18_entry) : list (bytes * c18_answer) :=
  flat_map (fun '(p, (d, n)) => match c18_nexthop p n with
                                | Some (h, port) => [(d, (p, (h, port)))]
                                | None => [] end) cfg.
Fixpoint c18_last (d : bytes) (l : list (bytes * c18_answer)) : option c18_answer :=
  match l with
  | [] => None
  | (d', a) :: r => match c18_last d r with
                    | Some a' => Some a'
                    | None => if beq d d' then Some a else None
                    end
  end.
(* entries that are in force (not overwritten later) *)
Definition c18_effective (l : list (bytes * c18_answer)) : list (bytes * c18_answer) :=
  filter (fun '(d, a) => match c18_last d l with
                         | Some a' => c18_answer_eqb a a' | None => false end) l.

Definition c18_opt_eqb (a b : option c18_answer) : bool :=
  match a, b with
  | None, None => true
  | Some x, Some y => c18_answer_eqb x y
  | _, _ => false
  end.

(* [obs]: the distinct answers seen over all repetitions of the look-up *)
Definition judge_C18 (cfg : list c18_entry) (host : bytes) (obs : list (option c18_answer)) : bool :=
  match obs with
  | [o] =>
      let l := c18_valid cfg in
      match c18_last host l with
      | Some a => c18_opt_eqb o (Some a)                    (* literal entry wins *)
      | None =>
          let ms := filter (fun '(d, _) => glob d host) (c18_effective l) in
          match ms with
          | _ :: _ => match o with                           (* some matching wildcard entry *)
                      | Some a => existsb (fun '(_, a') => c18_answer_eqb a a') ms
                      | None => false end
          | [] => c18_opt_eqb o (c18_last (s2b "default") l) (* default, else none *)
          end
      end
  | _ => false                                               (* unstable (or no) answer *)
  end.
