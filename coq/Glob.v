(* Glob.v — the matcher FindRoute obtains from toRegularExp: "^" ++ dest ++ "$" with
   "." -> "\." (itself) and "*" -> ".*" (any, possibly empty, sequence).
   Domain: patterns over [A-Za-z0-9.*-] (other regexp metacharacters are not escaped by
   the Go code), hosts without LF (Go's "." does not match a line feed). *)
From Coq Require Import List Ascii Bool.
From Model Require Import Bytes.
Import ListNotations.

Definition star : ascii := "*"%char.

Fixpoint glob (p s : bytes) : bool :=
  match p with
  | [] => match s with [] => true | _ :: _ => false end
  | c :: p' =>
      if Ascii.eqb c star then
        (fix any (s : bytes) : bool :=
           glob p' s || match s with [] => false | _ :: s' => any s' end) s
      else match s with
           | [] => false
           | x :: s' => Ascii.eqb x c && glob p' s'
           end
  end.

(* the declarative relation of the property text *)
Inductive Glob : bytes -> bytes -> Prop :=
| GNil : Glob [] []
| GChar c p s : c <> star -> Glob p s -> Glob (c :: p) (c :: s)
| GStar p s1 s2 : Glob p s2 -> Glob (star :: p) (s1 ++ s2).
