(* SpecProxy2.v — history judges (C04, C12) and the metamorphic judge (C17), over observables
   only, with the minimal reader of SpecProxy.v. *)
From Coq Require Import List Ascii String ZArith Bool.
From Model Require Import Bytes Wire Proxy RunProxy SpecProxy.
Import ListNotations.
Open Scope Z_scope.

(* ------------------------------------------------------------------ dialog key (C16's notion) *)
(* the URI inside <...>, or the bare addr-spec up to the header parameters *)
Definition j_value_uri (v : bytes) : bytes :=
  match index_byte "<"%char v, index_byte ">"%char v with
  | Some a, Some b => slice v (S a) b
  | _, _ => match index_byte ";"%char v with Some p => firstn p v | None => v end
  end.
(* what identifies the endpoint: a SIP URI without parameters and headers, any other URI verbatim *)
Definition j_core (u : bytes) : bytes :=
  if (has_prefix (s2b "sip:") u || has_prefix (s2b "sips:") u)%bool then
    let u1 := match index_byte "?"%char u with Some p => firstn p u | None => u end in
    match index_byte ";"%char u1 with Some p => firstn p u1 | None => u1 end
  else u.
Definition j_tag (v : bytes) : option bytes := j_get (s2b "tag") (j_entry_params v).
Record jdialog := { jd_callid : bytes; jd_a : bytes * bytes; jd_b : bytes * bytes }.
Definition j_dialog (m : jmsg) : option jdialog :=
  match j_first is_callid (jm_headers m), j_first is_from (jm_headers m), j_first is_to (jm_headers m) with
  | Some c, Some f, Some t =>
      match j_tag f, j_tag t with
      | Some tf, Some tg => Some {| jd_callid := c; jd_a := (tf, j_core (j_value_uri f)); jd_b := (tg, j_core (j_value_uri t)) |}
      | _, _ => None
      end
  | _, _, _ => None
  end.
Definition half_eqb (x y : bytes * bytes) : bool := beq (fst x) (fst y) && beq (snd x) (snd y).
Definition jd_same (x y : jdialog) : bool :=
  beq (jd_callid x) (jd_callid y) &&
  ((half_eqb (jd_a x) (jd_a y) && half_eqb (jd_b x) (jd_b y)) || (half_eqb (jd_a x) (jd_b y) && half_eqb (jd_b x) (jd_a y))).
Definition j_cseq_method (m : jmsg) : option bytes :=
  match j_first is_cseq (jm_headers m) with
  | Some v => match fields v with [_; meth] => Some meth | _ => None end
  | None => None
  end.
Definition j_status (m : jmsg) : Z :=
  match fields (jm_start m) with _ :: c :: _ => match atoi c with Some z => z | None => 0 end | _ => 0 end.

(* ------------------------------------------------------------------ C04 *)
(* dialog -> label of the backend that answered, and the instants (ns) the pin was made and runs out *)
Definition pin_tab := list (jdialog * (bytes * (Z * Z))).
Definition pin_find (d : jdialog) (t : pin_tab) : option (bytes * (Z * Z)) :=
  match find (fun x => jd_same d (fst x)) t with Some x => Some (snd x) | None => None end.
Definition pin_del (d : jdialog) (t : pin_tab) : pin_tab := filter (fun x => negb (jd_same d (fst x))) t.
Definition pin_set (d : jdialog) (b : bytes) (se : Z * Z) (t : pin_tab) : pin_tab := (d, (b, se)) :: pin_del d t.
Definition pin_unknown (d : jdialog) (t : pin_tab) : pin_tab := pin_set d (s2b "?") (0, 0) t.
Definition is_sub_state (n : bytes) : bool := equal_fold n (s2b "subscription-state").
Definition is_expires (n : bytes) : bool := equal_fold n (s2b "expires").
(* C15: a pin made at [now] by message m lives max(dialog timeout, Expires of m) seconds *)
Definition pin_span (pc : proxy_case) (now : Z) (m : jmsg) : Z * Z :=
  let ex := match j_first is_expires (jm_headers m) with
            | Some v => match atoi v with Some z => z | None => 0 end
            | None => 0 end in
  (now, now + Z.max (c_dialog_timeout (pc_cfg pc)) ex * 1000 * ms).
(* the driver's clock is the real one and runs ahead of the nominal instants by the processing time: a pin must be
   honoured during the first half of its life, must not be once it is over by 300 ms, in between either is accepted *)
Inductive phase := PLive | PGrey | PDead.
Definition pin_phase (now : Z) (se : Z * Z) : phase :=
  let '(s, e) := se in
  if Z.leb ((now - s) * 2) (e - s) then PLive
  else if Z.leb (e + 300 * ms) now then PDead
  else PGrey.

(* the rotation, as far as the observations determine it: the listener and the backend that received the last
   load-balanced request.  None = unknown (start, membership change, an input the judge does not read, a request
   that produced no output): the next load-balanced request is then accepted wherever it goes and re-synchronises. *)
Definition rot := option (nat * bytes).
Fixpoint succ_of (l : list bytes) (first : option bytes) (x : bytes) : option bytes :=
  match l with
  | [] => None
  | a :: r => if beq a x then (match r with b :: _ => Some b | [] => first end) else succ_of r first x
  end.
(* is [l] where the rotation must send the next unpinned request? *)
Definition rot_ok (backends : list bytes) (li : nat) (last : rot) (l : bytes) : bool :=
  match last with
  | Some (li', p) => if Nat.eqb li li' then
                       match succ_of backends (hd_error backends) p with Some n => beq n l | None => true end
                     else true
  | None => true
  end.

(* reason codes: 1 an in-dialog request addressed to the service went to another backend than the one that answered
                 2 a request of no live pinned dialog (never bound, dissolved by an answered BYE or a terminating
                   NOTIFY) was not load-balanced: it did not go to the rotation's next backend *)
Fixpoint j04_run (pc : proxy_case) (st : jstate) (pins : pin_tab) (last : rot) (evs : list event)
         (obs : list (list (bytes * bytes) * list nat)) : option (nat * nat) :=
  match evs, obs with
  | ev :: er, (outs, closed) :: or_ =>
      let next_r (p : pin_tab) (r : rot) := j04_run pc (js_step_c st ev outs closed) p r er or_ in
      let next (p : pin_tab) := next_r p last in
      let skip (p : pin_tab) := next_r p None in
      let now := time_of (pc_waits pc) (js_event st) in
      match ev with
      | EvBackendRemove li a => skip (filter (fun x => negb (beq (fst (snd x)) (s2b "udp:" ++ a))) pins)
      | EvBackendAdd _ _ => skip pins
      | _ =>
          match j_input st ev with
          | Some i =>
              match j_read (ji_data i) with
              | Some m =>
                  let backends := backend_labels (match nth_opt (js_backends st) (ji_li i) with Some l => l | None => [] end) in
                  if (jm_has_cl m && (negb (ji_tcp i) || single_message m))%bool then
                    if j_is_response m then
                      let src := udp_label (ji_src i) (ji_sport i) in
                      match j_dialog m, j_cseq_method m with
                      | Some d, Some meth =>
                          if (mem_bytes src backends && negb (ji_tcp i))%bool then
                            if beq meth (s2b "INVITE") then next (pin_set d src (pin_span pc now m) pins)
                            else if beq meth (s2b "BYE") then next (pin_del d pins)
                            else next pins
                          else if beq meth (s2b "SUBSCRIBE") then
                            (* a SUBSCRIBE issued by a backend has been answered: relayed towards it *)
                            match msgs_of outs with
                            | [(l, _)] => if mem_bytes l backends then next (pin_set d l (pin_span pc now m) pins) else next pins
                            | _ => next pins
                            end
                          else if (beq meth (s2b "INVITE") || beq meth (s2b "BYE"))%bool then
                            (* not from a backend address: the proxy may still attribute it through the client transaction
                               of its top Via; what it decides is not derivable from here: the dialog's pin is unknown *)
                            next (pin_unknown d pins)
                          else next pins
                      | _, _ => next pins
                      end
                    else
                      (* a request: to a backend (pinned or load-balanced), elsewhere (the rotation is not involved), or nowhere *)
                      let balanced (l : bytes) (p : pin_tab) :=
                        if rot_ok backends (ji_li i) last l then next_r p (Some (ji_li i, l)) else Some (js_event st, 2%nat) in
                      match msgs_of outs with
                      | [(l, _)] =>
                          if mem_bytes l backends then
                            match j_dialog m with
                            | Some d =>
                                match pin_find d pins with
                                | Some (b, se) =>
                                    if mem_bytes b backends then
                                      match pin_phase now se with
                                      | PLive =>
                                          if beq l b then
                                            (* NOTIFY ... Subscription-State: terminated dissolves the pin (terminated;reason=: don't care) *)
                                            match fields (jm_start m), j_first is_sub_state (jm_headers m) with
                                            | meth :: _, Some ss =>
                                                if beq meth (s2b "NOTIFY") then
                                                  if beq ss (s2b "terminated") then next (pin_del d pins)
                                                  else if has_prefix (s2b "terminated") ss then next (pin_unknown d pins)   (* don't care *)
                                                  else next pins
                                                else next pins
                                            | _, _ => next pins
                                            end
                                          else Some (js_event st, 1%nat)
                                      | PDead => balanced l (pin_del d pins)     (* its lifetime is over: like a new request *)
                                      | PGrey => skip pins
                                      end
                                    else
                                      (* the pin is unknown ("?"), or the backend that answered is gone: pinned or load-balanced,
                                         either is accepted, and where the cursor stands afterwards is not known *)
                                      skip pins
                                | None => balanced l pins
                                end
                            | None => balanced l pins
                            end
                          else next pins
                      | [] => skip pins          (* e.g. an oversized datagram: the cursor moved, nothing was seen *)
                      | _ => skip pins
                      end
                  else skip pins
              | None => skip pins
              end
          | None => next pins
          end
      end
  | _, _ => None
  end.

(* ------------------------------------------------------------------ C12 *)
Definition trans_tab := list ((bytes * bytes) * (nat * jvia)).     (* (CSeq method, branch) -> connection, the sender's Via entry AS RELAYED *)
Definition tr_find (k : bytes * bytes) (t : trans_tab) : option (nat * jvia) :=
  match find (fun x => beq (fst k) (fst (fst x)) && beq (snd k) (snd (fst x))) t with Some x => Some (snd x) | None => None end.
Definition tr_del (k : bytes * bytes) (t : trans_tab) : trans_tab :=
  filter (fun x => negb (beq (fst k) (fst (fst x)) && beq (snd k) (snd (fst x)))) t.
Definition conn_label (c : nat) : bytes := s2b "conn:" ++ itoa (Z.of_nat c).
(* reason codes: 1 the response did not go (only) to the connection its request used *)
Fixpoint j12_run (pc : proxy_case) (st : jstate) (tb : trans_tab) (dead : list nat) (evs : list event)
         (obs : list (list (bytes * bytes) * list nat)) : option (nat * nat) :=
  match evs, obs with
  | ev :: er, (outs, closed) :: or_ =>
      let dead' := closed ++ (match ev with EvTcpClose c => [c] | _ => [] end) ++ dead in
      let next (t : trans_tab) := j12_run pc (js_step_c st ev outs closed) t dead' er or_ in
      match j_input st ev with
      | Some i =>
          match j_read (ji_data i) with
          | Some m =>
              if (jm_has_cl m && (negb (ji_tcp i) || single_message m))%bool then
                let vias := j_flat_via (jm_headers m) in
                if j_is_response m then
                  match vias, j_cseq_method m with
                  | _ :: e2 :: _, Some meth =>
                      match j_via e2 with
                      | Some v2 =>
                          match j_get (s2b "branch") (jv_params v2) with
                          | Some br =>
                              match tr_find (meth, br) tb with
                              | Some (c, relayed) =>
                                  if (existsb (Nat.eqb c) dead || negb (jvia_eqb relayed v2))%bool then next tb
                                  else
                                    let ok := match msgs_of outs with [(l, _)] => beq l (conn_label c) | _ => false end in
                                    if ok then next (if Z.leb 200 (j_status m) then tr_del (meth, br) tb else tb)
                                    else Some (js_event st, 1%nat)
                              | None => next tb
                              end
                          | None => next tb
                          end
                      | None => next tb
                      end
                  | _, _ => next tb
                  end
                else if ji_tcp i then
                  match vias, j_cseq_method m with
                  | e1 :: _, Some meth =>
                      match j_via e1 with
                      | Some v1 =>
                          match j_get (s2b "branch") (jv_params v1) with
                          | Some br =>
                              (* the entry as the proxy relayed it (received / rport stamped or not) *)
                              let relayed := flat_map (fun o => match j_read (snd o) with
                                                                | Some om => flat_map (fun e => match j_via e with
                                                                                               | Some v => if match j_get (s2b "branch") (jv_params v) with Some b => beq b br | None => false end then [v] else []
                                                                                               | None => [] end) (j_flat_via (jm_headers om))
                                                                | None => [] end) (msgs_of outs) in
                              match relayed with
                              | rv :: _ => if lower_is (jv_transport v1) "tcp" then next (((meth, br), (ji_conn i, rv)) :: tr_del (meth, br) tb) else next tb
                              | [] => next tb
                              end
                          | None => next tb
                          end
                      | None => next tb
                      end
                  | _, _ => next tb
                  end
                else next tb
              else next tb
          | None => next tb
          end
      | None => next tb
      end
  | _, _ => None
  end.

(* ------------------------------------------------------------------ C17 *)
(* canonical reading of a relayed message: header names folded to lower case with compact
   forms expanded, Via / Route / Record-Route lists flattened to one pseudo-header per entry *)
Definition compact_full : list (string * string) :=
  [("a", "accept-contact"); ("b", "referred-by"); ("c", "content-type"); ("e", "content-encoding"); ("f", "from");
   ("i", "call-id"); ("k", "supported"); ("l", "content-length"); ("m", "contact"); ("o", "event"); ("r", "refer-to");
   ("s", "subject"); ("t", "to"); ("u", "allow-events"); ("v", "via")]%string.
Definition canon_name (n : bytes) : bytes :=
  let l := to_lower n in
  match find (fun p => beq l (s2b (fst p))) compact_full with Some p => s2b (snd p) | None => l end.
Definition canon_headers (hs : list (bytes * bytes)) : list (bytes * bytes) :=
  flat_map (fun h => let n := canon_name (fst h) in
                     if (beq n (s2b "via") || beq n (s2b "route") || beq n (s2b "record-route"))%bool
                     then map (fun e => (n, trim_space_go e)) (split_byte ","%char (snd h))
                     else [(n, snd h)]) hs.
Definition canon_eqb (a b : jmsg) : bool :=
  beq (jm_start a) (jm_start b) && beq (jm_body a) (jm_body b) && hs_eqb (canon_headers (jm_headers a)) (canon_headers (jm_headers b)).
(* two observations of twin scenarios (same events up to respelling / re-layout): same
   destinations, canonically equal messages.  reason: 1 destinations differ, 2 content differs *)
Fixpoint j17_run (e : nat) (oa ob : list (list (bytes * bytes) * list nat)) : option (nat * nat) :=
  match oa, ob with
  | (a, _) :: ra, (b, _) :: rb =>
      let ma := msgs_of a in let mb := msgs_of b in
      if negb (Nat.eqb (List.length ma) (List.length mb) && forallb (fun '(x, y) => beq (fst x) (fst y)) (combine ma mb)) then Some (e, 1%nat)
      else if forallb (fun '(x, y) => match j_read (snd x), j_read (snd y) with
                                      | Some p, Some q => canon_eqb p q
                                      | None, None => true
                                      | _, _ => false end) (combine ma mb)
           then j17_run (S e) ra rb else Some (e, 2%nat)
  | _, _ => None
  end.

(* ------------------------------------------------------------------ runners *)
Definition verdict (r : option (nat * nat)) : list bytes :=
  match r with None => [s2b "ok"] | Some (e, why) => [s2b "bad"; e_nat e; e_nat why] end.
Definition judge_proxy_hist (which : nat) (args : list bytes) : list bytes :=
  match d_proxy_case args with
  | Some (pc, obs) =>
      match run_dec (d_rep d_obs_event (List.length (pc_events pc))) obs with
      | Some o =>
          verdict (match which with
                   | O => j04_run pc (js_init (pc_cfg pc)) [] None (pc_events pc) o
                   | _ => j12_run pc (js_init (pc_cfg pc)) [] [] (pc_events pc) o
                   end)
      | None => [s2b "decode-error"]
      end
  | None => [s2b "decode-error"]
  end.
(* twin: case A, case B, then observation A, observation B (B already mapped into A's address block) *)
Definition judge_proxy_twin (args : list bytes) : list bytes :=
  match d_proxy_case args with
  | Some (pa, r1) =>
      match d_proxy_case r1 with
      | Some (pb, r2) =>
          match d_rep d_obs_event (List.length (pc_events pa)) r2 with
          | Some (oa, r3) =>
              match run_dec (d_rep d_obs_event (List.length (pc_events pb))) r3 with
              | Some ob => verdict (j17_run 0 oa ob)
              | None => [s2b "decode-error"]
              end
          | None => [s2b "decode-error"]
          end
      | None => [s2b "decode-error"]
      end
  | None => [s2b "decode-error"]
  end.
