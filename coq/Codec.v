(* Codec.v — the observation the correspondence run takes of each Parse*/String pair:
   decode, accessors, encode, decode the encoding again, encode again. *)
From Coq Require Import List Ascii String ZArith Bool.
From Model Require Import Bytes Uri Hdr Message Wire.
Import ListNotations.
Open Scope Z_scope.

Definition e_kvs (l : list kv) : list bytes := e_list (fun p => [k_key p; k_val p]) l.

Definition obs_sip_uri (u : sip_uri) : list bytes :=
  [u_scheme u; u_user u; u_password u; u_host u; e_int (u_port u); e_int (sip_uri_get_port u);
   sip_uri_transport u] ++ e_kvs (u_params u) ++ e_kvs (u_headers u).
Definition obs_addr_spec (a : addr_spec) : list bytes :=
  match a with
  | ASip u => s2b "sip" :: obs_sip_uri u
  | AAbs s => [s2b "abs"; s]
  end ++ [dialog_addr a].
Definition obs_name_addr (n : name_addr) : list bytes := na_display n :: obs_addr_spec (na_addr n).
Definition obs_route_param (r : route_param) : list bytes := obs_name_addr (r_addr r) ++ e_kvs (r_params r).
Definition obs_via_param (v : via_param) : list bytes :=
  [v_name v; v_version v; v_transport v; v_host v; e_int (v_port v); e_int (via_get_port v)] ++
  e_kvs (v_params v) ++
  e_opt (fun b => [b]) (via_get_branch v) ++ e_opt (fun b => [b]) (via_get_received v) ++
  e_opt (fun z => [e_int z]) (via_get_rport v).
Definition obs_fromto (f : fromto) : list bytes :=
  (match ft_addr_of f with
   | FtName n => s2b "name" :: obs_name_addr n
   | FtSpec a => s2b "spec" :: obs_addr_spec a
   end) ++ e_kvs (ft_params f) ++ e_opt (fun b => [b]) (fromto_tag f) ++ e_opt (fun b => [b]) (fromto_host f).
Definition obs_cseq (c : cseq) : list bytes := [e_int (cs_seq c); cs_method c].

(* generic: parse, observe, print, parse the print, print again *)
Definition codec_obs {A} (parse : bytes -> res A) (print : A -> bytes) (obs : A -> list bytes) (s : bytes) : list bytes :=
  match parse s with
  | Ok a =>
      let p := print a in
      s2b "ok" :: p :: obs a ++
      match parse p with
      | Ok a2 => [s2b "ok"; print a2]
      | Err => [s2b "err"]
      | Panic => [s2b "panic"]
      end
  | Err => [s2b "err"]
  | Panic => [s2b "panic"]
  end.

Definition run_codec (args : list bytes) : list bytes :=
  match args with
  | kind :: s :: _ =>
      if beq kind (s2b "sipuri") then codec_obs parse_sip_uri sip_uri_print obs_sip_uri s
      else if beq kind (s2b "addrspec") then codec_obs parse_addr_spec addr_spec_print obs_addr_spec s
      else if beq kind (s2b "nameaddr") then codec_obs parse_name_addr name_addr_print obs_name_addr s
      else if beq kind (s2b "via") then codec_obs parse_via via_print (e_list obs_via_param) s
      else if beq kind (s2b "route") then codec_obs parse_route route_print (e_list obs_route_param) s
      else if beq kind (s2b "recordroute") then codec_obs parse_record_route route_print (e_list obs_route_param) s
      else if beq kind (s2b "from") then codec_obs parse_fromto fromto_print obs_fromto s
      else if beq kind (s2b "to") then codec_obs parse_fromto fromto_print obs_fromto s
      else if beq kind (s2b "cseq") then codec_obs parse_cseq cseq_print obs_cseq s
      else [s2b "unknown-kind"]
  | _ => [s2b "decode-error"]
  end.
