(* SendFault.v — transport.go: TCPClientTransport.Send, FailOverClientTransport.Send ;
   backend.go: TCPBackend.Send/connect.  The network is a script: what each dial attempt
   yields and, per connection, whether each successive write succeeds. *)
From Coq Require Import List Ascii String ZArith Bool.
From Model Require Import Bytes.
Import ListNotations.

(* behaviour of one connection: results of its successive writes (true = accepted);
   writes beyond the script succeed *)
Definition conn_script := list bool.
(* the world: connections by id with their remaining write script, and the results of the
   dial attempts still to come (None = refused, Some s = a new connection with script s) *)
Record world := { w_conns : list (nat * conn_script); w_dials : list (option conn_script); w_next : nat }.

Inductive io_event :=
| EWrite (c : nat) (ok : bool)      (* the whole message was offered to connection c *)
| EDial (r : option nat)            (* a dial attempt; Some c = the new connection *)
| EClose (c : nat).

Fixpoint conn_write (c : nat) (l : list (nat * conn_script)) : list (nat * conn_script) * bool :=
  match l with
  | [] => ([], true)
  | (c', s) :: r =>
      if Nat.eqb c c' then
        match s with
        | [] => ((c', []) :: r, true)
        | b :: s' => ((c', s') :: r, b)
        end
      else let '(r', ok) := conn_write c r in ((c', s) :: r', ok)
  end.

Definition w_write (c : nat) (w : world) : world * bool :=
  let '(cs, ok) := conn_write c (w_conns w) in
  ({| w_conns := cs; w_dials := w_dials w; w_next := w_next w |}, ok).

Definition w_dial (w : world) : world * option nat :=
  match w_dials w with
  | [] | None :: _ =>
      ({| w_conns := w_conns w; w_dials := tl (w_dials w); w_next := w_next w |}, None)
  | Some s :: r =>
      ({| w_conns := w_conns w ++ [(w_next w, s)]; w_dials := r; w_next := S (w_next w) |}, Some (w_next w))
  end.

(* ---- TCPClientTransport ---- *)
Record tcp_client := { tc_conn : option nat; tc_reconnectable : bool }.

(* the two-iteration loop of Send; [n] = iterations left *)
Fixpoint tcp_client_send_loop (n : nat) (t : tcp_client) (w : world) (tr : list io_event)
  : tcp_client * world * list io_event * bool :=
  match n with
  | O => (t, w, tr, false)
  | S n' =>
      (* if t.conn == nil && t.reconnectable { dial; on error return err } *)
      let '(t1, w1, tr1, refused) :=
        match tc_conn t with
        | None =>
            if tc_reconnectable t then
              let '(w', r) := w_dial w in
              match r with
              | Some c => ({| tc_conn := Some c; tc_reconnectable := true |}, w', tr ++ [EDial (Some c)], false)
              | None => (t, w', tr ++ [EDial None], true)
              end
            else (t, w, tr, false)
        | Some _ => (t, w, tr, false)
        end in
      if refused then (t1, w1, tr1, false)
      else match tc_conn t1 with
           | None => tcp_client_send_loop n' t1 w1 tr1          (* continue *)
           | Some c =>
               let '(w2, ok) := w_write c w1 in
               if ok then (t1, w2, tr1 ++ [EWrite c true], true)
               else tcp_client_send_loop n'
                      {| tc_conn := None; tc_reconnectable := tc_reconnectable t1 |} w2
                      (tr1 ++ [EWrite c false; EClose c])
           end
  end.
Definition tcp_client_send (t : tcp_client) (w : world) :=
  tcp_client_send_loop 2 t w [].

(* ---- TCPBackend: always redials; a failed dial does not abort the loop ---- *)
Fixpoint tcp_backend_send_loop (n : nat) (conn : option nat) (w : world) (tr : list io_event)
  : option nat * world * list io_event * bool :=
  match n with
  | O => (conn, w, tr, false)
  | S n' =>
      let '(conn1, w1, tr1) :=
        match conn with
        | None => let '(w', r) := w_dial w in (r, w', tr ++ [EDial r])
        | Some _ => (conn, w, tr)
        end in
      match conn1 with
      | None => tcp_backend_send_loop n' None w1 tr1
      | Some c =>
          let '(w2, ok) := w_write c w1 in
          if ok then (conn1, w2, tr1 ++ [EWrite c true], true)
          else tcp_backend_send_loop n' None w2 (tr1 ++ [EWrite c false; EClose c])
      end
  end.
Definition tcp_backend_send (conn : option nat) (w : world) := tcp_backend_send_loop 2 conn w [].

(* ---- FailOverClientTransport: primary (an inbound connection, not reconnectable), then
   forget it on error, then secondary (reconnectable client, may be absent) ---- *)
Record failover := { fo_primary : option tcp_client; fo_secondary : option tcp_client }.

Definition failover_send (f : failover) (w : world) : failover * world * list io_event * bool :=
  let '(f1, w1, tr1, done) :=
    match fo_primary f with
    | Some p =>
        let '(p', w', tr, ok) := tcp_client_send p w in
        if ok then ({| fo_primary := Some p'; fo_secondary := fo_secondary f |}, w', tr, true)
        else ({| fo_primary := None; fo_secondary := fo_secondary f |}, w', tr, false)
    | None => (f, w, [], false)
    end in
  if done then (f1, w1, tr1, true)
  else match fo_secondary f1 with
       | Some s =>
           let '(s', w2, tr2, ok) := tcp_client_send s w1 in
           ({| fo_primary := fo_primary f1; fo_secondary := Some s' |}, w2, tr1 ++ tr2, ok)
       | None => (f1, w1, tr1, false)
       end.

(* a sequence of sends *)
Fixpoint failover_sends (n : nat) (f : failover) (w : world) : list (list io_event * bool) :=
  match n with
  | O => []
  | S n' => let '(f', w', tr, ok) := failover_send f w in (tr, ok) :: failover_sends n' f' w'
  end.
Fixpoint backend_sends (n : nat) (conn : option nat) (w : world) : list (list io_event * bool) :=
  match n with
  | O => []
  | S n' => let '(c', w', tr, ok) := tcp_backend_send conn w in (tr, ok) :: backend_sends n' c' w'
  end.
