From Coq Require Import Extraction ExtrOcamlBasic ExtrOcamlString List.
From Model Require Import Bytes Run.
Extraction Language OCaml.
(* Coq's List.rev is quadratic (defined with ++); the model reverses header values of up to
   16 KiB and bodies.  The one extraction directive of the development beyond ExtrOcamlBasic /
   ExtrOcamlString: List.rev is realised by OCaml's List.rev (same function, linear).  Listed
   in the trusted base. *)
Extract Inlined Constant rev => "List.rev".
Extraction "model.ml" run judge.
