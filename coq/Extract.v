From Coq Require Import Extraction ExtrOcamlBasic ExtrOcamlString.
From Model Require Import Bytes Run.
Extraction Language OCaml.
Extraction "model.ml" run judge.
