(* Msg.v — the message.go getters in STATE-PASSING style.  In Go every typed getter decodes
   the header IN PLACE (header.value = decoded) and the mutation persists even when the
   caller goes on to fail; that decides which headers are re-encoded on output.  [M A] is
   "a computation that may rewrite the message and returns a result". *)
From Coq Require Import List Ascii String ZArith Bool.
From Model Require Import Bytes Uri Hdr Message.
Import ListNotations.
Open Scope Z_scope.

Definition M (A : Type) : Type := message -> message * res A.
Definition mret {A} (a : A) : M A := fun m => (m, Ok a).
Definition merr {A} : M A := fun m => (m, Err).
Definition mpanic {A} : M A := fun m => (m, Panic).
Definition mbind {A B} (x : M A) (f : A -> M B) : M B :=
  fun m => let '(m1, r) := x m in
           match r with Ok a => f a m1 | Err => (m1, Err) | Panic => (m1, Panic) end.
Notation "'mlet' x ':=' r 'in' k" := (mbind r (fun x => k))
  (at level 200, x pattern, r at level 100, k at level 200, right associativity).
Definition mlift {A} (r : res A) : M A := fun m => (m, r).
Definition mget : M message := fun m => (m, Ok m).
Definition mmodify (f : message -> message) : M unit := fun m => (f m, Ok tt).
(* run a computation whose error is ignored by the Go caller (`x, _ := f()`): the message
   keeps the mutations, the caller sees an option *)
Definition mtry {A} (x : M A) : M (option A) :=
  fun m => let '(m1, r) := x m in
           match r with Ok a => (m1, Ok (Some a)) | Err => (m1, Ok None) | Panic => (m1, Panic) end.

Definition set_val (name : bytes) (v : hval) (m : message) : message :=
  with_headers m (update_header name (fun _ => v) (m_headers m)).

(* generic lazy typed getter: first header with that name; decode a raw value in place *)
Definition typed_get {A} (name : bytes) (proj : hval -> option A) (parse : bytes -> res A) (inj : A -> hval) : M A :=
  fun m =>
    match get_header name (m_headers m) with
    | None => (m, Err)
    | Some h =>
        match proj (h_val h) with
        | Some a => (m, Ok a)
        | None =>
            match h_val h with
            | HRaw s => match parse s with
                        | Ok a => (set_val name (inj a) m, Ok a)
                        | Err => (m, Err)
                        | Panic => (m, Panic)
                        end
            | _ => (m, Err)
            end
        end
    end.

Definition s_get_via : M (list via_param) :=
  typed_get (s2b "Via") (fun v => match v with HVia l => Some l | _ => None end) parse_via HVia.
Definition s_get_route : M (list route_param) :=
  typed_get (s2b "Route") (fun v => match v with HRoute l => Some l | _ => None end) parse_route HRoute.
Definition s_get_from : M fromto :=
  typed_get (s2b "From") (fun v => match v with HFrom f => Some f | _ => None end) parse_fromto HFrom.
Definition s_get_to : M fromto :=
  typed_get (s2b "To") (fun v => match v with HTo f => Some f | _ => None end) parse_fromto HTo.
Definition s_get_cseq : M cseq :=
  typed_get (s2b "CSeq") (fun v => match v with HCSeq c => Some c | _ => None end) parse_cseq HCSeq.

(* GetHeaderValue as a raw string (Call-ID, Expires, Subscription-State, Content-Length) *)
Definition s_get_raw (name : bytes) : M bytes := fun m => (m, get_raw name m).
Definition s_get_expires (def : Z) : M Z := fun m => (m, Ok (get_expires m def)).

Definition s_get_method : M bytes :=
  fun m => match m_start m with
           | SReq meth _ _ => (m, Ok meth)
           | SResp _ _ _ => (mlet c := s_get_cseq in mret (cs_method c)) m
           end.

Definition s_top_via : M via_param :=
  mlet l := s_get_via in match l with v :: _ => mret v | [] => merr end.

(* GetClientTransaction *)
Definition s_client_transaction : M bytes :=
  mlet c := s_get_cseq in
  mlet v := s_top_via in
  mlet b := mlift (of_opt (via_get_branch v)) in
  mret (cs_method c ++ "-"%char :: b).

(* PopVia / PopRoute *)
Definition s_pop_via : M unit :=
  mlet l := s_get_via in
  match l with
  | _ :: (_ :: _) as rest => mmodify (set_val (s2b "Via") (HVia rest))
  | _ => mmodify (fun m => with_headers m (remove_header (s2b "Via") (m_headers m)))
  end.
Definition s_pop_route : M unit :=
  mlet l := s_get_route in
  match l with
  | _ :: (_ :: _) as rest => mmodify (set_val (s2b "Route") (HRoute rest))
  | _ => mmodify (fun m => with_headers m (remove_header (s2b "Route") (m_headers m)))
  end.

(* SetReceived *)
Definition s_set_received (peer : bytes) (port : Z) : M unit :=
  mlet l := s_get_via in
  match l with
  | v :: rest =>
      let v1 := via_set_param (s2b "received") peer v in
      let v2 := if kv_has (s2b "rport") (v_params v1) then via_set_param (s2b "rport") (itoa port) v1 else v1 in
      mmodify (set_val (s2b "Via") (HVia (v2 :: rest)))
  | [] => merr
  end.

(* ForEachViaParam: every Via header that decodes is decoded in place; all its entries *)
Definition s_all_via_params : M (list via_param) :=
  fun m => let '(hs, vs) := decode_all_vias (m_headers m) in (with_headers m hs, Ok vs).

(* GetDialog *)
Definition s_get_dialog : M bytes :=
  mlet cid := s_get_raw (s2b "Call-ID") in
  mlet f := s_get_from in
  mlet ftag := mlift (of_opt (fromto_tag f)) in
  mlet t := s_get_to in
  mlet ttag := mlift (of_opt (fromto_tag t)) in
  mret (dialog_string cid ftag (dialog_addr (fromto_addr_spec f)) ttag (dialog_addr (fromto_addr_spec t))).
