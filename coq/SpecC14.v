(* SpecC14.v — the DOMAIN of C14 and its reference reading, independent of the decoder:
   abstract syntax of the header values the proxy decodes, the well-formedness predicate that
   transcribes the property's quantifier, the reference printer (the text such a value
   denotes), and the observation an exact decoder must produce for it.  The correspondence
   generator produces abstract values; THIS file turns them into text and into the expected
   observation; the theorems of proofs/C14.v are stated over the same definitions. *)
From Coq Require Import List Ascii String ZArith Bool.
From Model Require Import Bytes Wire.
Import ListNotations.
Open Scope Z_scope.

(* ---- character classes ---- *)
Definition in_str (c : ascii) (s : string) : bool := existsb (Ascii.eqb c) (list_ascii_of_string s).
Definition ws (c : ascii) : bool := is_space c.
(* characters that never break any of the splits the decoders perform *)
Definition safe_char (c : ascii) : bool := negb (ws c || in_str c ";,=<>?&@:""/").
Definition safe (s : bytes) : bool := forallb safe_char s.
Definition safe1 (s : bytes) : bool := negb (beq s []) && safe s.
(* parameter values and URI-header values may also contain '=', ':', '@', '/' and double quotes *)
Definition val_char (c : ascii) : bool := negb (ws c || in_str c ";,<>?&").
Definition val_ok (s : bytes) : bool := forallb val_char s.
(* display names: anything without '<' '>' ',' CR LF; tokens or quoted strings *)
Definition display_char (c : ascii) : bool :=
  negb (in_str c "<>," || Ascii.eqb c (ascii_of_nat 13) || Ascii.eqb c (ascii_of_nat 10)).
Definition display_ok (s : bytes) : bool := forallb display_char s.

(* ---- abstract syntax ---- *)
Record a_param := { ap_key : bytes; ap_val : option bytes }.       (* None = valueless *)
Record a_sipuri := { au_secure : bool;
                     au_user : option (bytes * option bytes);       (* user [: password] *)
                     au_host : bytes; au_port : option Z;
                     au_params : list a_param; au_headers : list (bytes * bytes) }.
Inductive a_addr := AASip (u : a_sipuri) | AAOther (s : bytes).     (* tel:, urn:, ... verbatim *)
Record a_nameaddr := { an_display : bytes; an_addr : a_addr }.
Record a_relem := { ar_na : a_nameaddr; ar_params : list a_param }. (* Route / Record-Route element *)
Inductive a_ftaddr := AFName (n : a_nameaddr) | AFBare (a : a_addr).
Record a_fromto := { af_addr : a_ftaddr; af_params : list a_param }.
Record a_via := { av_name : bytes; av_version : bytes; av_transport : bytes;
                  av_host : bytes; av_port : option Z; av_params : list a_param }.
Record a_cseq := { ac_seq : Z; ac_method : bytes }.

(* ---- well-formedness (the property's grammar) ---- *)
Definition wf_param (p : a_param) : bool :=
  safe1 (ap_key p) && match ap_val p with Some v => negb (beq v []) && val_ok v | None => true end.
Definition wf_port (p : option Z) : bool :=
  match p with Some z => (1 <=? z) && (z <=? 65535) | None => true end.
Definition wf_sipuri (u : a_sipuri) : bool :=
  match au_user u with
  | Some (usr, pw) => safe1 usr && match pw with Some p => safe1 p | None => true end
  | None => true
  end && safe1 (au_host u) && wf_port (au_port u) &&
  forallb wf_param (au_params u) &&
  forallb (fun '(k, v) => safe1 k && val_ok v) (au_headers u).
Definition other_char (c : ascii) : bool := negb (ws c || in_str c "<>,").
(* a non-SIP URI: has a scheme, is not sip:/sips: *)
Definition wf_other (s : bytes) : bool :=
  forallb other_char s && contains_byte ":"%char s &&
  negb (has_prefix (s2b "sip:") s) && negb (has_prefix (s2b "sips:") s).
Definition wf_addr (a : a_addr) : bool :=
  match a with AASip u => wf_sipuri u | AAOther s => wf_other s end.
Definition wf_nameaddr (n : a_nameaddr) : bool := display_ok (an_display n) && wf_addr (an_addr n).
(* [wf_relem] (Route / Record-Route element) is stated below, after [rp_params]: it mentions the
   text of the parameter tail *)
(* bare addr-spec form (RFC 3261 20.10: only when the URI has no ';' '?' ','): a SIP URI without
   parameters and headers, or another URI without ';' *)
Definition wf_bare (a : a_addr) : bool :=
  match a with
  | AASip u => wf_sipuri u && match au_params u, au_headers u with [], [] => true | _, _ => false end
  | AAOther s => wf_other s && negb (contains_byte ";"%char s)
  end.
Definition wf_fromto (f : a_fromto) : bool :=
  match af_addr f with AFName n => wf_nameaddr n | AFBare a => wf_bare a end &&
  forallb wf_param (af_params f).
Definition noslash (s : bytes) : bool := safe1 s.          (* safe excludes '/' *)
(* the token shape of a Via entry *)
Definition wf_via_shape (v : a_via) : bool :=
  noslash (av_name v) && noslash (av_version v) && noslash (av_transport v) &&
  safe1 (av_host v) && wf_port (av_port v) && forallb wf_param (av_params v).
(* parseViaParam splits the sent-protocol / sent-by text with strings.Fields, and parseCSeq the
   whole value: strings.Fields also splits at the UTF-8 encodings of the Unicode white-space
   runes (U+0085, U+00A0, U+1680, U+2000..U+200A, U+2028, U+2029, U+202F, U+205F, U+3000), and
   [safe_char] allows bytes >= 128: none of these sequences may occur inside the protocol name,
   the version, the transport, the host or the CSeq method.  (The separators '/', ' ', ':' the
   reference printer puts between them are ASCII, so no sequence can span two tokens; the
   parameters behind the first ';' are not split with Fields.) *)
Definition via_no_usp (v : a_via) : bool :=
  no_usp (av_name v) && no_usp (av_version v) && no_usp (av_transport v) && no_usp (av_host v).
Definition wf_via (v : a_via) : bool := wf_via_shape v && via_no_usp v.
Definition wf_cseq (c : a_cseq) : bool :=
  (0 <=? ac_seq c) && (ac_seq c <=? 4294967295) && safe1 (ac_method c) && no_usp (ac_method c).

(* ---- reference printer ---- *)
Definition rp_param (p : a_param) : bytes :=
  match ap_val p with Some v => ap_key p ++ "="%char :: v | None => ap_key p end.
Definition rp_params (l : list a_param) : bytes := flat_map (fun p => ";"%char :: rp_param p) l.
(* Route / Record-Route element.  Inside a comma-separated list the display name must not be
   blank-only: parseRouteParam keeps leading blanks as part of the display name, so any display
   name is fine.  parseRouteParam applies strings.TrimSpace to the text after '>', and TrimSpace
   strips Unicode white space, not only ASCII blanks: [val_char] / [safe_char] allow bytes >= 128,
   so the text of the parameter tail must not END with the UTF-8 encoding of a Unicode space
   (U+0085, U+00A0, U+1680, U+2000..U+200A, U+2028, U+2029, U+202F, U+205F, U+3000) — such an
   ending would be cut off the last parameter.  (It begins with ';', and ASCII blanks are
   excluded by [wf_param].) *)
Definition wf_relem (r : a_relem) : bool :=
  wf_nameaddr (ar_na r) && forallb wf_param (ar_params r) &&
  negb (ends_with_uspace (rp_params (ar_params r))).
Definition rp_port (p : option Z) : bytes := match p with Some z => ":"%char :: itoa z | None => [] end.
Definition rp_sipuri (u : a_sipuri) : bytes :=
  (if au_secure u then s2b "sips:" else s2b "sip:") ++
  match au_user u with
  | Some (usr, Some pw) => usr ++ ":"%char :: pw ++ [ "@"%char ]
  | Some (usr, None) => usr ++ [ "@"%char ]
  | None => []
  end ++ au_host u ++ rp_port (au_port u) ++ rp_params (au_params u) ++
  match au_headers u with
  | [] => []
  | (k, v) :: r => "?"%char :: k ++ "="%char :: v ++ flat_map (fun '(k, v) => "&"%char :: k ++ "="%char :: v) r
  end.
Definition rp_addr (a : a_addr) : bytes := match a with AASip u => rp_sipuri u | AAOther s => s end.
Definition rp_nameaddr (n : a_nameaddr) : bytes := an_display n ++ "<"%char :: rp_addr (an_addr n) ++ [ ">"%char ].
Definition rp_relem (r : a_relem) : bytes := rp_nameaddr (ar_na r) ++ rp_params (ar_params r).
Definition rp_route (l : list a_relem) : bytes := join_byte ","%char (map rp_relem l).
Definition rp_fromto (f : a_fromto) : bytes :=
  match af_addr f with AFName n => rp_nameaddr n | AFBare a => rp_addr a end ++ rp_params (af_params f).
Definition rp_via1 (v : a_via) : bytes :=
  av_name v ++ "/"%char :: av_version v ++ "/"%char :: av_transport v ++ " "%char ::
  av_host v ++ rp_port (av_port v) ++ rp_params (av_params v).
Definition rp_via (l : list a_via) : bytes := join_byte ","%char (map rp_via1 l).
Definition rp_cseq (c : a_cseq) : bytes := itoa (ac_seq c) ++ " "%char :: ac_method c.

(* ---- what the abstract value denotes, in the token format of Codec.v's observations ---- *)
Definition x_param (p : a_param) : list bytes := [ap_key p; match ap_val p with Some v => v | None => [] end].
Definition x_params (l : list a_param) : list bytes := e_list x_param l.
Definition a_get (name : bytes) (l : list a_param) : option bytes :=
  match find (fun p => beq (ap_key p) name) l with
  | Some p => Some (match ap_val p with Some v => v | None => [] end)
  | None => None
  end.
Definition x_transport (u : a_sipuri) : bytes :=
  match a_get (s2b "transport") (au_params u) with Some t => t | None => s2b "udp" end.
Definition x_sipuri (u : a_sipuri) : list bytes :=
  [if au_secure u then s2b "sips" else s2b "sip";
   match au_user u with Some (usr, _) => usr | None => [] end;
   match au_user u with Some (_, Some pw) => pw | _ => [] end;
   au_host u;
   e_int (match au_port u with Some z => z | None => 0 end);
   e_int (match au_port u with Some z => z | None => if beq (x_transport u) (s2b "tls") then 5061 else 5060 end);
   x_transport u] ++ x_params (au_params u) ++ e_list (fun '(k, v) => [k; v]) (au_headers u).
(* the dialog half: SIP URI without parameters and headers, other URIs verbatim *)
Definition x_dialog_addr (a : a_addr) : bytes :=
  match a with
  | AASip u => rp_sipuri {| au_secure := au_secure u; au_user := au_user u; au_host := au_host u;
                            au_port := au_port u; au_params := []; au_headers := [] |}
  | AAOther s => s
  end.
Definition x_addr (a : a_addr) : list bytes :=
  match a with AASip u => s2b "sip" :: x_sipuri u | AAOther s => [s2b "abs"; s] end ++ [x_dialog_addr a].
Definition x_nameaddr (n : a_nameaddr) : list bytes := an_display n :: x_addr (an_addr n).
Definition x_relem (r : a_relem) : list bytes := x_nameaddr (ar_na r) ++ x_params (ar_params r).
Definition x_opt (o : option bytes) : list bytes := e_opt (fun b => [b]) o.
Definition x_via1 (v : a_via) : list bytes :=
  [av_name v; av_version v; av_transport v; av_host v;
   e_int (match av_port v with Some z => z | None => 0 end);
   e_int (match av_port v with Some z => z | None => if beq (av_transport v) (s2b "TLS") then 5061 else 5060 end)] ++
  x_params (av_params v) ++ x_opt (a_get (s2b "branch") (av_params v)) ++
  x_opt (a_get (s2b "received") (av_params v)) ++
  e_opt (fun z => [e_int z]) (match a_get (s2b "rport") (av_params v) with Some r => atoi r | None => None end).
Definition x_fromto (f : a_fromto) : list bytes :=
  match af_addr f with
  | AFName n => s2b "name" :: x_nameaddr n
  | AFBare a => s2b "spec" :: x_addr a
  end ++ x_params (af_params f) ++ x_opt (a_get (s2b "tag") (af_params f)) ++
  x_opt (match af_addr f with
         | AFName {| an_addr := AASip u |} | AFBare (AASip u) => Some (au_host u)
         | _ => None end).
Definition x_cseq (c : a_cseq) : list bytes := [e_int (ac_seq c); ac_method c].

(* the full expected observation of an exact, lossless codec on text [t] denoting [x] *)
Definition expected_obs (t : bytes) (x : list bytes) : list bytes :=
  s2b "ok" :: t :: x ++ [s2b "ok"; t].

(* ---- decoding abstract values from generator tokens ---- *)
Definition d_opt {A} (d : dec A) : dec (option A) :=
  dlet b := d_bool in if b then (dlet a := d in d_ret (Some a)) else d_ret None.
Definition d_aparam : dec a_param :=
  dlet k := d_bytes in dlet v := d_opt d_bytes in d_ret {| ap_key := k; ap_val := v |}.
Definition d_asipuri : dec a_sipuri :=
  dlet sec := d_bool in
  dlet usr := d_opt (d_pair d_bytes (d_opt d_bytes)) in
  dlet h := d_bytes in dlet p := d_opt d_int in
  dlet ps := d_list d_aparam in dlet hs := d_list (d_pair d_bytes d_bytes) in
  d_ret {| au_secure := sec; au_user := usr; au_host := h; au_port := p; au_params := ps; au_headers := hs |}.
Definition d_aaddr : dec a_addr :=
  dlet sip := d_bool in
  if sip then (dlet u := d_asipuri in d_ret (AASip u)) else (dlet s := d_bytes in d_ret (AAOther s)).
Definition d_anameaddr : dec a_nameaddr :=
  dlet d := d_bytes in dlet a := d_aaddr in d_ret {| an_display := d; an_addr := a |}.
Definition d_arelem : dec a_relem :=
  dlet n := d_anameaddr in dlet ps := d_list d_aparam in d_ret {| ar_na := n; ar_params := ps |}.
Definition d_afromto : dec a_fromto :=
  dlet named := d_bool in
  dlet a := (if named then (dlet n := d_anameaddr in d_ret (AFName n)) else (dlet a := d_aaddr in d_ret (AFBare a))) in
  dlet ps := d_list d_aparam in d_ret {| af_addr := a; af_params := ps |}.
Definition d_avia : dec a_via :=
  dlet n := d_bytes in dlet v := d_bytes in dlet t := d_bytes in dlet h := d_bytes in dlet p := d_opt d_int in
  dlet ps := d_list d_aparam in
  d_ret {| av_name := n; av_version := v; av_transport := t; av_host := h; av_port := p; av_params := ps |}.
Definition d_acseq : dec a_cseq :=
  dlet n := d_int in dlet m := d_bytes in d_ret {| ac_seq := n; ac_method := m |}.

(* codecgen: kind + abstract value  ->  wf flag, text, expected observation *)
Definition gen_out (wf : bool) (t : bytes) (x : list bytes) : list bytes :=
  e_bool wf :: t :: expected_obs t x.
Definition run_codecgen (args : list bytes) : list bytes :=
  match args with
  | kind :: rest =>
      let bad := [s2b "decode-error"] in
      if beq kind (s2b "sipuri") then
        match run_dec d_asipuri rest with Some u => gen_out (wf_sipuri u) (rp_sipuri u) (x_sipuri u) | None => bad end
      else if beq kind (s2b "addrspec") then
        match run_dec d_aaddr rest with Some a => gen_out (wf_addr a) (rp_addr a) (x_addr a) | None => bad end
      else if beq kind (s2b "nameaddr") then
        match run_dec d_anameaddr rest with Some n => gen_out (wf_nameaddr n) (rp_nameaddr n) (x_nameaddr n) | None => bad end
      else if (beq kind (s2b "route") || beq kind (s2b "recordroute"))%bool then
        match run_dec (d_list d_arelem) rest with
        | Some l => gen_out (forallb wf_relem l && negb (Nat.eqb (List.length l) 0)) (rp_route l) (e_list x_relem l)
        | None => bad end
      else if (beq kind (s2b "from") || beq kind (s2b "to"))%bool then
        match run_dec d_afromto rest with Some f => gen_out (wf_fromto f) (rp_fromto f) (x_fromto f) | None => bad end
      else if beq kind (s2b "via") then
        match run_dec (d_list d_avia) rest with
        | Some l => gen_out (forallb wf_via l && negb (Nat.eqb (List.length l) 0)) (rp_via l) (e_list x_via1 l)
        | None => bad end
      else if beq kind (s2b "cseq") then
        match run_dec d_acseq rest with Some c => gen_out (wf_cseq c) (rp_cseq c) (x_cseq c) | None => bad end
      else [s2b "unknown-kind"]
  | [] => [s2b "decode-error"]
  end.

(* the judge: an observation made on the implementation for text [t] equals what the
   abstract value denotes (decode exact, encode byte-identical, re-encode stable) *)
Fixpoint list_beq (a b : list bytes) : bool :=
  match a, b with
  | [], [] => true
  | x :: a', y :: b' => beq x y && list_beq a' b'
  | _, _ => false
  end.
Definition judge_C14 (expected obs : list bytes) : bool := list_beq expected obs.
