(* Properties.v — ONLY the property theorems: the statement, closed by [exact] of the lemma
   proved in proofs/, nothing else.  tools/lib.py runs Print Assumptions on every theorem
   named Cxx_* and counts them as the proof obligations of property Cxx. *)
From Coq Require Import List Ascii String ZArith Bool Permutation.
From Model Require Import Bytes Glob StaticRoute Spec Run.
From Model.proofs Require C18.
Import ListNotations.

(* ------------------------------------------------------------------ C18 *)
(* the executable matcher decides "'*' = any sequence, every other character = itself" *)
Theorem C18_glob_correct : forall p s, glob p s = true <-> Glob p s.
Proof. exact C18.glob_correct. Qed.

(* fixed precedence: literal entry, else a matching wildcard entry, else default, else none —
   for every table and every host *)
Theorem C18_precedence : forall t host,
  match find_route t host with
  | Some it =>
      alookup host t = Some it
      \/ (alookup host t = None /\ exists d, In (d, it) t /\ Glob d host)
      \/ (alookup host t = None /\ (forall d it', In (d, it') t -> ~ Glob d host)
          /\ alookup (s2b "default") t = Some it)
  | None => alookup host t = None /\ (forall d it', In (d, it') t -> ~ Glob d host)
            /\ alookup (s2b "default") t = None
  end.
Proof. exact C18.find_route_spec. Qed.

(* the same, against the independent judge of Spec.v that reads the configuration itself
   (later entry for a dest replaces the earlier; invalid next hops are skipped) *)
Theorem C18_judged : forall cfg host,
  judge_C18 cfg host [option_map C18.ans_of (find_route (build_table cfg) host)] = true.
Proof. exact C18.find_route_judged. Qed.

(* stable answer: the result does not depend on the order in which the runtime enumerates
   the Go map [m]; and the list model used everywhere else is that Go-shaped function *)
Theorem C18_stable : forall cfg m host,
  Permutation (build_table cfg) m ->
  find_route_go m (map fst (build_table cfg)) host = find_route (build_table cfg) host.
Proof. exact C18.find_route_go_build_table. Qed.

(* the pre-fix map-order scan was not stable (computed witness) *)
Theorem C18_legacy_unstable_refuted :
  exists t o1 o2 host, Permutation o1 t /\ Permutation o2 t /\
     find_route_legacy o1 t host <> find_route_legacy o2 t host.
Proof. exact C18.find_route_legacy_unstable. Qed.

(* host:port yields that port; no port yields 5060, or 5061 for tls in any letter case *)
Theorem C18_port_default : forall proto dest h, ~ In ":"%char h ->
  new_pre_route_item proto dest h =
    Some {| ri_proto := proto; ri_dest := dest; ri_host := h;
            ri_port := if equal_fold (s2b "tls") proto then 5061 else 5060 |}.
Proof. exact C18.nexthop_no_port. Qed.
Theorem C18_port_explicit : forall proto dest h p, (0 <= p <= int_max)%Z ->
  new_pre_route_item proto dest (h ++ ":"%char :: itoa p) =
    Some {| ri_proto := proto; ri_dest := dest; ri_host := h; ri_port := p |}.
Proof. exact C18.nexthop_with_port. Qed.
