(* Properties.v — ONLY the property theorems: the statement, closed by [exact] of the lemma
   proved in proofs/, nothing else.  tools/lib.py runs Print Assumptions on every theorem
   named Cxx_* and counts them as the proof obligations of property Cxx. *)
From Coq Require Import List Ascii String ZArith Bool Permutation.
From Model Require Import Bytes Glob StaticRoute Spec Run.
From Model.proofs Require C18.
Import ListNotations.

(* ------------------------------------------------------------------ C18 *)
(* the executable matcher decides "'*' = any sequence, every other character = itself" *)
Theorem C18_glob_correct : forall p s, glob p s = true <-> Glob p s.
Proof. exact C18.glob_correct. Qed.

(* fixed precedence: literal entry, else a matching wildcard entry, else default, else none —
   for every table and every host *)
Theorem C18_precedence : forall t host,
  match find_route t host with
  | Some it =>
      alookup host t = Some it
      \/ (alookup host t = None /\ exists d, In (d, it) t /\ Glob d host)
      \/ (alookup host t = None /\ (forall d it', In (d, it') t -> ~ Glob d host)
          /\ alookup (s2b "default") t = Some it)
  | None => alookup host t = None /\ (forall d it', In (d, it') t -> ~ Glob d host)
            /\ alookup (s2b "default") t = None
  end.
Proof. exact C18.find_route_spec. Qed.

(* the same, against the independent judge of Spec.v that reads the configuration itself
   (later entry for a dest replaces the earlier; invalid next hops are skipped) *)
Theorem C18_judged : forall cfg host,
  judge_C18 cfg host [option_map C18.ans_of (find_route (build_table cfg) host)] = true.
Proof. exact C18.find_route_judged. Qed.

(* stable answer: the result does not depend on the order in which the runtime enumerates
   the Go map [m]; and the list model used everywhere else is that Go-shaped function *)
Theorem C18_stable : forall cfg m host,
  Permutation (build_table cfg) m ->
  find_route_go m (map fst (build_table cfg)) host = find_route (build_table cfg) host.
Proof. exact C18.find_route_go_build_table. Qed.

(* the pre-fix map-order scan was not stable (computed witness) *)
Theorem C18_legacy_unstable_refuted :
  exists t o1 o2 host, Permutation o1 t /\ Permutation o2 t /\
     find_route_legacy o1 t host <> find_route_legacy o2 t host.
Proof. exact C18.find_route_legacy_unstable. Qed.

(* host:port yields that port; no port yields 5060, or 5061 for tls in any letter case *)
Theorem C18_port_default : forall proto dest h, ~ In ":"%char h ->
  new_pre_route_item proto dest h =
    Some {| ri_proto := proto; ri_dest := dest; ri_host := h;
            ri_port := if equal_fold (s2b "tls") proto then 5061 else 5060 |}.
Proof. exact C18.nexthop_no_port. Qed.
Theorem C18_port_explicit : forall proto dest h p, (0 <= p <= int_max)%Z ->
  new_pre_route_item proto dest (h ++ ":"%char :: itoa p) =
    Some {| ri_proto := proto; ri_dest := dest; ri_host := h; ri_port := p |}.
Proof. exact C18.nexthop_with_port. Qed.

(* ------------------------------------------------------------------ C05 *)
From Model Require Import RoundRobin SpecC05.
From Model.proofs Require C05.

(* every history in the domain (an address is never added while present): the outputs of the
   model satisfy the independent judge — member at that moment, None iff empty, every window of
   k dispatches between membership changes hits k different backends, removal flags, final set *)
Theorem C05_judged : forall ops, rr_domain ops = true ->
  let '(s, outs) := rr_run rr_init ops in judge_C05 ops outs (rr_backends s) = true.
Proof. exact C05.C05_judged. Qed.

Theorem C05_member : forall s, List.length (rr_backends s) <> 0%nat ->
  exists b, snd (rr_dispatch s) = Some b /\ In b (rr_backends s) /\
            rr_backends (fst (rr_dispatch s)) = rr_backends s /\
            rr_map (fst (rr_dispatch s)) = rr_map s.
Proof. exact C05.rr_member. Qed.

Theorem C05_empty_dropped : forall s, List.length (rr_backends s) = 0%nat -> rr_dispatch s = (s, None).
Proof. exact C05.rr_member_empty. Qed.

(* any k consecutive dispatches over k backends reach each exactly once — from ANY state,
   whatever the index is (it may exceed k after a removal) *)
Theorem C05_window : forall s, List.length (rr_backends s) <> 0%nat ->
  Permutation (snd (C05.rr_dispatches s (List.length (rr_backends s)))) (map Some (rr_backends s)) /\
  rr_backends (fst (C05.rr_dispatches s (List.length (rr_backends s)))) = rr_backends s.
Proof. exact C05.rr_window. Qed.

(* after N dispatches every backend has received floor(N/k) or floor(N/k)+1 *)
Theorem C05_counts : forall s N b, NoDup (rr_backends s) -> In b (rr_backends s) ->
  let c := count_occ C05.obytes_dec (snd (C05.rr_dispatches s N)) (Some b) in
  c = (N / List.length (rr_backends s))%nat \/ c = (N / List.length (rr_backends s) + 1)%nat.
Proof. exact C05.rr_counts. Qed.

Theorem C05_removed_silent : forall s a ops, C05.rr_inv s ->
  Forall (fun o => o <> RAdd a) ops ->
  ~ In (OSent (Some a)) (snd (rr_run (fst (rr_remove a s)) ops)).
Proof. exact C05.rr_removed_silent. Qed.

Theorem C05_added_joins : forall s a,
  let outs := snd (C05.rr_dispatches (rr_add a s) (List.length (rr_backends s) + 1)) in
  In (Some a) outs /\ forall b, In b (rr_backends s) -> In (Some b) outs.
Proof. exact C05.rr_added_joins. Qed.

(* schedules: every lock region one atomic step, ANY interleaving of dispatchers and
   membership changes: no division by zero / index out of range, and every delivery goes to a
   backend that is registered at the moment it is selected *)
Theorem C05_schedules_safe : forall ops,
  rr_srun {| ss_rr := rr_init; ss_threads := [] |} ops <> Panic /\
  exists st' outs,
    rr_srun {| ss_rr := rr_init; ss_threads := [] |} ops = Ok (st', outs) /\
    forall k tid b, nth_error outs k = Some (SDelivered tid b) ->
      exists stk, rr_srun {| ss_rr := rr_init; ss_threads := [] |} (firstn k ops)
                    = Ok (stk, firstn k outs) /\
                  In b (rr_backends (ss_rr stk)).
Proof. exact C05.C05_schedules_safe. Qed.

(* ------------------------------------------------------------------ C15 *)
From Model Require Import Pins SpecC15.
From Model.proofs Require C15.

Theorem C15_judged : forall timeout_s ops, pins_domain timeout_s ops = true ->
  judge_C15 timeout_s ops (snd (pins_run (0%Z, pins_new timeout_s 0%Z) ops)) = true.
Proof. exact C15.C15_judged. Qed.

(* honoured for max(timeout, Expires): at every instant strictly before the lifetime elapsed *)
Theorem C15_honoured : forall ts pre k b e mid,
  pins_domain ts (pre ++ PAdd k b e :: mid) = true ->
  existsb (C15.touches k) mid = false ->
  (C15.elapsed mid < c15_ns (Z.max ts e))%Z ->
  let st := C15.after ts (pre ++ PAdd k b e :: mid) in
  snd (pins_get (fst st) k (snd st)) = Some b.
Proof. exact C15.C15_honoured. Qed.

(* never at or after it *)
Theorem C15_never_after : forall ts pre k b e mid,
  pins_domain ts (pre ++ PAdd k b e :: mid) = true ->
  existsb (C15.touches k) mid = false ->
  (c15_ns (Z.max ts e) <= C15.elapsed mid)%Z ->
  let st := C15.after ts (pre ++ PAdd k b e :: mid) in
  snd (pins_get (fst st) k (snd st)) = None.
Proof. exact C15.C15_never_after. Qed.

(* dissolved on termination *)
Theorem C15_removed : forall ts pre k mid,
  existsb (C15.adds k) mid = false ->
  let st := C15.after ts (pre ++ PRemove k :: mid) in
  snd (pins_get (fst st) k (snd st)) = None.
Proof. exact C15.C15_removed. Qed.

(* right after any pin-creating event at time t nothing that expired more than one timeout
   before t is left, whatever Expires values were seen *)
Theorem C15_swept : forall ts pre k b e,
  pins_domain ts (pre ++ [PAdd k b e]) = true -> C15.swept (C15.after ts (pre ++ [PAdd k b e])).
Proof. exact C15.C15_swept. Qed.

Theorem C15_bounded : forall ts pre k b e,
  let ops := pre ++ [PAdd k b e] in
  pins_domain ts ops = true ->
  let t := fst (C15.after ts ops) in
  fst (c15_after ts ops) = t /\
  (List.length (p_tab (snd (C15.after ts ops))) <=
   List.length (filter (c15_recent ts t) (snd (c15_after ts ops))))%nat.
Proof. exact C15.C15_bounded. Qed.

(* the pre-fix code (nextCleanTime = expiry of the entry just added) violates it *)
Theorem C15_legacy_refuted :
  exists ts pre k b e,
    pins_domain ts (pre ++ [PAdd k b e]) = true /\
    ~ C15.swept (C15.legacy_after ts (pre ++ [PAdd k b e])) /\
    judge_C15 ts (pre ++ [PAdd k b e])
              (snd (C15.legacy_run (0%Z, pins_new ts 0%Z) (pre ++ [PAdd k b e]))) = false.
Proof. exact C15.C15_legacy_refuted. Qed.

(* ------------------------------------------------------------------ C19 *)
From Model Require Import Resolver SpecC19.
From Model.proofs Require C19.

Theorem C19_judged : forall port os,
  c19_domain os = true -> judge_C19 port os (C19.resolver_obs port (rentry_init, rr_init) os) = true.
Proof. exact C19.C19_judged. Qed.

(* what the extracted runner prints is exactly that observation *)
Theorem C19_runner_is_obs : forall port os st,
  resolver_run port st os = flat_map C19.e_c19_obs (C19.resolver_obs port st os).
Proof. exact C19.resolver_run_obs. Qed.

Theorem C19_tracks : forall port e s A e' s' outs,
  C19.Inv port (e, s) -> NoDup A ->
  resolver_step port (e, s) (ROk A) = ((e', s'), outs) ->
  C19.Inv port (e', s') /\
  re_addrs e' = A /\ re_failed e' = 0%nat /\
  NoDup (rr_backends s') /\
  Permutation (rr_backends s') (map (fun ip => create_host_port ip port) A) /\
  outs = repeat (ORemoved true) (List.length (str_array_sub (re_addrs e) A)) /\
  (forall ip, In ip (re_addrs e) -> ~ In ip A ->
     ~ In (create_host_port ip port) (rr_backends s') /\ ~ In (create_host_port ip port) (rr_map s')) /\
  (forall ip, In ip A ->
     In (create_host_port ip port) (rr_backends s') /\ In (create_host_port ip port) (rr_map s')).
Proof. exact C19.C19_tracks. Qed.

Theorem C19_tolerates : forall port e s,
  (re_failed e < 3)%nat \/ re_addrs e = [] ->
  resolver_step port (e, s) RFail =
  (({| re_addrs := re_addrs e; re_failed := S (re_failed e) |}, s), []).
Proof. exact C19.C19_tolerates. Qed.

Theorem C19_fourth_empties : forall port e s,
  C19.Inv port (e, s) -> (3 <= re_failed e)%nat -> re_addrs e <> [] ->
  exists s',
    resolver_step port (e, s) RFail =
      (({| re_addrs := []; re_failed := 0 |}, s'),
       repeat (ORemoved true) (List.length (re_addrs e))) /\
    rr_backends s' = [] /\ rr_map s' = [] /\
    C19.Inv port ({| re_addrs := []; re_failed := 0 |}, s').
Proof. exact C19.C19_fourth_empties. Qed.

Theorem C19_success_resets : forall port e s A,
  fst (fst (resolver_step port (e, s) (ROk A))) = {| re_addrs := A; re_failed := 0 |}.
Proof. exact C19.C19_success_resets. Qed.

Theorem C19_invariant_reachable : forall port os,
  c19_domain os = true -> C19.Inv port (C19.resolver_states port (rentry_init, rr_init) os).
Proof. exact C19.C19_inv_reachable. Qed.

(* ------------------------------------------------------------------ C14 *)
From Model Require Import Wire Uri Hdr Codec SpecC14.
From Model.proofs Require C14_uri C14_hdr C14_via.

(* for every well-formed abstract value (no size bound) the decoder extracts exactly what the
   reference text denotes (components and accessors), the encoder gives the text back byte for
   byte, and decoding the encoding and encoding again is stable: [codec_obs] is that whole
   observation, [expected_obs] what an exact lossless codec must produce *)
Theorem C14_sipuri : forall u, wf_sipuri u = true ->
  codec_obs parse_sip_uri sip_uri_print obs_sip_uri (rp_sipuri u) = expected_obs (rp_sipuri u) (x_sipuri u).
Proof. exact C14_uri.C14_sipuri. Qed.
Theorem C14_addrspec : forall a, wf_addr a = true ->
  codec_obs parse_addr_spec addr_spec_print obs_addr_spec (rp_addr a) = expected_obs (rp_addr a) (x_addr a).
Proof. exact C14_uri.C14_addrspec. Qed.
Theorem C14_nameaddr : forall n, wf_nameaddr n = true ->
  codec_obs parse_name_addr name_addr_print obs_name_addr (rp_nameaddr n) = expected_obs (rp_nameaddr n) (x_nameaddr n).
Proof. exact C14_uri.C14_nameaddr. Qed.
Theorem C14_route : forall l, l <> [] -> forallb wf_relem l = true ->
  codec_obs parse_route route_print (e_list obs_route_param) (rp_route l) = expected_obs (rp_route l) (e_list x_relem l).
Proof. exact C14_hdr.C14_route. Qed.
Theorem C14_recordroute : forall l, l <> [] -> forallb wf_relem l = true ->
  codec_obs parse_record_route route_print (e_list obs_route_param) (rp_route l) = expected_obs (rp_route l) (e_list x_relem l).
Proof. exact C14_hdr.C14_recordroute. Qed.
Theorem C14_fromto : forall f, wf_fromto f = true ->
  codec_obs parse_fromto fromto_print obs_fromto (rp_fromto f) = expected_obs (rp_fromto f) (x_fromto f).
Proof. exact C14_hdr.C14_fromto. Qed.
Theorem C14_via : forall l, l <> [] -> forallb wf_via l = true ->
  codec_obs parse_via via_print (e_list obs_via_param) (rp_via l) = expected_obs (rp_via l) (e_list x_via1 l).
Proof. exact C14_via.C14_via. Qed.
Theorem C14_cseq : forall c, wf_cseq c = true ->
  codec_obs parse_cseq cseq_print obs_cseq (rp_cseq c) = expected_obs (rp_cseq c) (x_cseq c).
Proof. exact C14_via.C14_cseq. Qed.
(* the judge the check applies to implementation observations accepts exactly that *)
Theorem C14_judge_exact : forall e o, o = e -> judge_C14 e o = true.
Proof. exact C14_uri.judge_C14_of_eq. Qed.

(* the pre-fix decoders/encoders violate it (computed witnesses) *)
Theorem C14_sipuri_legacy_refuted :
  exists u, wf_sipuri u = true /\ rp_sipuri u = s2b "sip:h;foo;lr;x=1" /\
    parse_sip_uri_legacy (rp_sipuri u) <> Ok (C14_uri.embed_sipuri u) /\
    codec_obs parse_sip_uri_legacy sip_uri_print obs_sip_uri (rp_sipuri u) <> expected_obs (rp_sipuri u) (x_sipuri u).
Proof. exact C14_uri.C14_sipuri_legacy_refuted. Qed.
Theorem C14_route_legacy_refuted :
  exists r, wf_relem r = true /\ rp_relem r = s2b "<sip:h;lr>;a=1;b" /\
    route_param_print_legacy (C14_hdr.embed_relem r) <> rp_relem r /\
    parse_route_param (route_param_print_legacy (C14_hdr.embed_relem r)) <> Ok (C14_hdr.embed_relem r).
Proof. exact C14_hdr.C14_route_legacy_refuted. Qed.
Theorem C14_fromto_legacy_refuted :
  exists f, wf_fromto f = true /\ rp_fromto f = s2b "tel:+1;tag=x" /\
    parse_fromto_legacy (rp_fromto f) <> Ok (C14_hdr.embed_fromto f) /\
    codec_obs parse_fromto_legacy fromto_print obs_fromto (rp_fromto f) <> expected_obs (rp_fromto f) (x_fromto f).
Proof. exact C14_hdr.C14_fromto_legacy_refuted. Qed.
(* the two tracked known findings, outside the well-formedness domain *)
Theorem C14_ipv6_refuted :
  exists text u, text = s2b "sip:[::1]:5060" /\ parse_sip_uri text = Ok u /\
    u_host u = s2b "[" /\ u_port u = 0%Z /\ sip_uri_print u = s2b "sip:[" /\ sip_uri_print u <> text.
Proof. exact C14_uri.C14_ipv6_refuted. Qed.
Theorem C14_user_semicolon_refuted :
  exists text u, text = s2b "sip:a;b@h:5070" /\ parse_sip_uri text = Ok u /\
    u_host u = s2b "a" /\ u_user u = [] /\ u_port u = 0%Z /\ sip_uri_get_port u = 5060%Z /\
    u_params u = [ {| k_key := s2b "b@h:5070"; k_val := [] |} ] /\ sip_uri_print u = text.
Proof. exact C14_uri.C14_user_semicolon_refuted. Qed.

(* ------------------------------------------------------------------ C16 *)
From Model Require Import Message SpecC16.
From Model.proofs Require C16.

(* direction independence, for ALL byte strings (equal URIs and equal tags included) *)
Theorem C16_symmetric : forall c t1 a1 t2 a2, dialog_string c t1 a1 t2 a2 = dialog_string c t2 a2 t1 a1.
Proof. exact C16.C16_symmetric. Qed.
Theorem C16_legacy_refuted : exists c t1 a t2,
  t1 <> t2 /\ dialog_string_legacy c t1 a t2 a <> dialog_string_legacy c t2 a t1 a.
Proof. exact C16.C16_legacy_refuted. Qed.
(* same Call-ID and the same two (tag, URI) halves, whichever is in From: same identifier *)
Theorem C16_same_id : forall a b, c16_same a b = true -> C16.c16_id a = C16.c16_id b.
Proof. exact C16.C16_same_id. Qed.
(* discrimination: the Call-ID unconditionally; one tag or one URI under the separator
   hypothesis sep_ok (a boolean, evaluated on every generated case) *)
Theorem C16_callid_discriminates : forall c c' t1 a1 t2 a2,
  c <> c' -> dialog_string c t1 a1 t2 a2 <> dialog_string c' t1 a1 t2 a2.
Proof. exact C16.C16_callid_discriminates. Qed.
Theorem C16_discriminates : forall a b,
  cm_has a = true -> cm_has b = true -> c16_one_change a b = true -> c16_same a b = false ->
  C16.sep_ok a b = true -> C16.c16_id a <> C16.c16_id b.
Proof. exact C16.C16_discriminates. Qed.
(* sep_ok holds whenever the two tags of each message differ and are '-'-free (any URIs) *)
Theorem C16_sep_ok_realistic : forall a b,
  c16_one_change a b = true -> C16.half_ok a = true -> C16.half_ok b = true -> C16.sep_ok a b = true.
Proof. exact C16.half_ok_sep_ok. Qed.
Theorem C16_half_ok_distinct_tags : forall m,
  ~ In "-"%char (cm_ta m) -> ~ In "-"%char (cm_tb m) -> cm_ta m <> cm_tb m -> C16.half_ok m = true.
Proof. exact C16.half_ok_distinct_tags. Qed.
(* outside it the identifier is not discriminating: the tracked finding K3 *)
Theorem C16_K3_refuted : exists a b,
  cm_has a = true /\ cm_has b = true /\
  cm_callid a = cm_callid b /\ cm_ta a = cm_ta b /\ cm_tb a = cm_tb b /\ cm_ub a = cm_ub b /\ cm_ua a <> cm_ua b /\
  c16_one_change a b = true /\ c16_same a b = false /\ C16.sep_ok a b = false /\ C16.c16_id a = C16.c16_id b.
Proof. exact C16.C16_K3_refuted. Qed.
(* the group judge accepts the model on every group in the domain *)
Theorem C16_judged : forall (ms : list c16_msg),
  (forall a b, In a ms -> In b ms -> cm_has a = true -> cm_has b = true ->
               c16_one_change a b = true -> c16_same a b = false -> C16.sep_ok a b = true) ->
  judge_C16 (map (fun m => (m, if cm_has m then Some (C16.c16_id m) else None)) ms) = None.
Proof. exact C16.C16_judged. Qed.
(* a message lacking either tag belongs to no dialog; one with both gets exactly the
   identifier of its Call-ID and halves, whatever else the headers carry *)
Theorem C16_no_tag_from : forall m m1 f, get_from m = Ok (m1, f) -> fromto_tag f = None -> get_dialog m = Err.
Proof. exact C16.C16_no_tag_from. Qed.
Theorem C16_no_tag_to : forall m m1 f m2 t,
  get_from m = Ok (m1, f) -> get_to m1 = Ok (m2, t) -> fromto_tag t = None -> get_dialog m = Err.
Proof. exact C16.C16_no_tag_to. Qed.
Theorem C16_get_dialog_inv : forall m m2 d, get_dialog m = Ok (m2, d) ->
  exists cid m1 f t ftag ttag,
    get_call_id m = Ok cid /\ get_from m = Ok (m1, f) /\ get_to m1 = Ok (m2, t) /\
    fromto_tag f = Some ftag /\ fromto_tag t = Some ttag /\
    d = dialog_string cid ftag (dialog_addr (fromto_addr_spec f)) ttag (dialog_addr (fromto_addr_spec t)).
Proof. exact C16.C16_get_dialog_inv. Qed.
Theorem C16_message_symmetric : forall m m' cid m1 f m2 t m1' f' m2' t',
  get_call_id m = Ok cid -> get_call_id m' = Ok cid ->
  get_from m = Ok (m1, f) -> get_to m1 = Ok (m2, t) ->
  get_from m' = Ok (m1', f') -> get_to m1' = Ok (m2', t') ->
  fromto_tag f' = fromto_tag t -> fromto_tag t' = fromto_tag f ->
  dialog_addr (fromto_addr_spec f') = dialog_addr (fromto_addr_spec t) ->
  dialog_addr (fromto_addr_spec t') = dialog_addr (fromto_addr_spec f) ->
  rmap snd (get_dialog m) = rmap snd (get_dialog m').
Proof. exact C16.C16_message_symmetric. Qed.
(* decorations do not matter: the half a From/To value contributes is (tag, URI core) of
   the abstract value, whatever display name, URI parameters/headers, header parameters and
   name-addr/addr-spec form it was rendered with (with C14_fromto) *)
Theorem C16_half_of_rendering : forall f, wf_fromto f = true ->
  parse_fromto (rp_fromto f) = Ok (C14_hdr.embed_fromto f) /\
  fromto_tag (C14_hdr.embed_fromto f) = a_get (s2b "tag") (af_params f) /\
  dialog_addr (fromto_addr_spec (C14_hdr.embed_fromto f)) = x_dialog_addr (C14_hdr.a_ft_addr f).
Proof.
  intros f H. split; [exact (C14_hdr.parse_fromto_rp f H)|].
  split; [exact (C14_hdr.fromto_tag_embed f) | exact (C14_hdr.fromto_dialog_addr_embed f H)].
Qed.

(* ------------------------------------------------------------------ C20 *)
From Model Require Import SendFault SpecC20.
From Model.proofs Require C20.

(* every send from every well-formed state, any fault script: the trace satisfies the judge *)
Theorem C20_judged_client : forall f w, C20.fo_wf f (w_next w) ->
  let '(_, _, tr, ok) := failover_send f w in judge_C20_send tr ok = true.
Proof. exact C20.C20_judged_client. Qed.
Theorem C20_judged_backend : forall conn w, C20.b_wf conn (w_next w) ->
  let '(_, _, tr, ok) := tcp_backend_send conn w in judge_C20_send tr ok = true.
Proof. exact C20.C20_judged_backend. Qed.
(* along any sequence of sends with any per-send dial results: what the extracted runner
   prints is judged by the count-based judge that is also applied to the real code *)
Theorem C20_obs_judged_client : forall plans f w,
  C20.fo_wf f (w_next w) -> forallb judge_C20_obs (C20.client_obs plans f w) = true.
Proof. exact C20.C20_obs_judged_client_strong. Qed.
Theorem C20_obs_judged_backend : forall plans conn w,
  C20.b_wf conn (w_next w) -> forallb judge_C20_obs (C20.backend_obs plans conn w) = true.
Proof. exact C20.C20_obs_judged_backend_strong. Qed.
Theorem C20_client_obs_printed : forall plans f w,
  sendfault_client plans f w = flat_map e_obs (C20.client_obs plans f w).
Proof. exact C20.C20_client_obs_printed. Qed.
Theorem C20_backend_obs_printed : forall plans c w,
  sendfault_backend plans c w = flat_map e_obs (C20.backend_obs plans c w).
Proof. exact C20.C20_backend_obs_printed. Qed.
Theorem C20_trace_judge_implies_obs : forall next tr ok,
  C20.okwrites_below next tr -> judge_C20_send tr ok = true -> judge_C20_obs (obs_of_trace next tr ok) = true.
Proof. exact C20.C20_trace_judge_implies_obs. Qed.
(* success = the whole message written exactly once, as the last write of the call *)
Theorem C20_success_means_written : forall f w f' w' tr, failover_send f w = (f', w', tr, true) ->
  exists pre c, tr = pre ++ [EWrite c true] /\ (forall c', ~ In (EWrite c' true) pre).
Proof. exact C20.C20_success_means_written. Qed.
Theorem C20_error_means_unwritten : forall f w f' w' tr,
  failover_send f w = (f', w', tr, false) -> forall c, ~ In (EWrite c true) tr.
Proof. exact C20.C20_error_means_unwritten. Qed.
Theorem C20_no_dup : forall f w f' w' tr ok,
  failover_send f w = (f', w', tr, ok) -> (List.length (filter ev_is_okwrite tr) <= 1)%nat.
Proof. exact C20.C20_no_dup. Qed.
Theorem C20_no_dup_backend : forall conn w conn' w' tr ok,
  tcp_backend_send conn w = (conn', w', tr, ok) -> (List.length (filter ev_is_okwrite tr) <= 1)%nat.
Proof. exact C20.C20_no_dup_backend. Qed.
(* cached connection fails on write, reconnectable path available: the same call writes the
   message once on a fresh connection; later sends go straight to it *)
Theorem C20_failover : forall f w p c s rest,
  C20.w_wf w -> C20.fo_wf f (w_next w) -> fo_primary f = Some p -> tc_conn p = Some c -> C20.next_write c w = false ->
  fo_secondary f = Some {| tc_conn := None; tc_reconnectable := true |} ->
  w_dials w = Some s :: rest -> hd true s = true ->
  failover_send f w =
    ({| fo_primary := None; fo_secondary := Some {| tc_conn := Some (w_next w); tc_reconnectable := true |} |},
     C20.after_write (w_next w) (C20.after_dial (C20.after_write c w)),
     [EWrite c false; EClose c; EDial (Some (w_next w)); EWrite (w_next w) true], true)
  /\ c <> w_next w.
Proof. exact C20.C20_failover. Qed.
Theorem C20_later_direct : forall f w p c s rest,
  C20.w_wf w -> C20.fo_wf f (w_next w) -> fo_primary f = Some p -> tc_conn p = Some c -> C20.next_write c w = false ->
  fo_secondary f = Some {| tc_conn := None; tc_reconnectable := true |} ->
  w_dials w = Some s :: rest -> hd true s = true ->
  forall f' w' tr ok, failover_send f w = (f', w', tr, ok) ->
  forall w2, (w_next w' <= w_next w2)%nat ->
  forall f2 w3 tr2 ok2, failover_send f' w2 = (f2, w3, tr2, ok2) ->
  (forall e, In e tr2 -> ~ In c (C20.ev_ids e)) /\
  (exists b rest2, tr2 = EWrite (w_next w) b :: rest2) /\
  (C20.next_write (w_next w) w2 = true -> tr2 = [EWrite (w_next w) true] /\ ok2 = true /\ f2 = f').
Proof. exact C20.C20_later_direct. Qed.
(* a refusing destination yields an error after at most one dial attempt, nothing written *)
Theorem C20_refused : forall f w f' w' tr ok,
  C20.fo_wf f (w_next w) -> C20.dial_refused w -> C20.primary_id f = None -> C20.secondary_id f = None ->
  failover_send f w = (f', w', tr, ok) ->
  ok = false /\ (tr = [] \/ tr = [EDial None]) /\
  (List.length (filter ev_is_dial tr) <= 2)%nat /\ filter ev_is_write tr = [] /\
  w_conns w' = w_conns w /\ w_next w' = w_next w /\ C20.primary_id f' = None /\ C20.secondary_id f' = None.
Proof. exact C20.C20_refused. Qed.
Theorem C20_refused_backend : forall w conn' w' tr ok,
  C20.dial_refused w -> C20.dial_refused (C20.after_dial w) -> tcp_backend_send None w = (conn', w', tr, ok) ->
  ok = false /\ tr = [EDial None; EDial None] /\ conn' = None /\ w_conns w' = w_conns w /\ w_next w' = w_next w.
Proof. exact C20.C20_refused_backend. Qed.

(* ------------------------------------------------------------------ C09 *)

From Model Require Lockset Policy.
From Model.gen Require Accesses.
From Model.proofs Require C09.
(* for ALL well-formed traces (= all schedules): a trace in which every location obeys one of
   Locked / Owned / InitOnly / Handoff has no two conflicting accesses unordered by
   happens-before (program order, Rel->Acq, Fork->child, k-th Send->k-th Recv) *)
Theorem C09_lockset_sound : forall (policy : Lockset.loc -> Lockset.discipline) (tr : Lockset.trace),
  Lockset.wf_trace tr -> Lockset.disciplined policy tr -> Lockset.race_free tr.
Proof. exact Lockset.lockset_sound. Qed.

(* the literal "written only before any Fork" is an instance of InitOnly *)
Theorem C09_init_before_any_fork : forall tr l, Lockset.wf_trace tr ->
  (forall i t, Lockset.access_at tr i = Some (t, l, true) ->
     forall k t0 t1, (k < i)%nat -> nth_error tr k <> Some (Lockset.Fork t0 t1)) ->
  Lockset.obeys tr l (Lockset.InitOnly Lockset.main_thread).
Proof. exact Lockset.init_before_any_fork. Qed.

(* the table regenerated from /repo by tools/locktab on this run: every recorded access site
   obeys the discipline the policy gives its field *)
Theorem C09_discipline : forallb Policy.site_ok Accesses.accesses = true.
Proof. exact C09.C09_discipline. Qed.

(* every struct field written outside a constructor is classified by the policy *)
Theorem C09_policy_complete : forallb Policy.classified Policy.written_fields = true.
Proof. exact C09.C09_policy_complete. Qed.

(* every field the policy names exists in the package *)
Theorem C09_policy_wellformed : Policy.policy_fields_exist = true.
Proof. exact C09.C09_policy_wellformed. Qed.

(* the acquires-while-holding graph (lexical + through the call graph) has no cycle *)
Theorem C09_lock_order_acyclic : Policy.lock_order_acyclic = true.
Proof. exact C09.C09_lock_order_acyclic. Qed.

(* the cached tables (roots reaching a function, must-hold locks, transitively acquired
   mutexes, lock order) are what their definitions compute, and are closed under the call graph *)
Theorem C09_tables :
  Policy.RR = Policy.prop_iter 64%nat Accesses.calls Policy.root_init /\ Policy.RR_closed = true /\
  Policy.MH = Policy.mh_step (Policy.mh_step (Policy.mh_step (Policy.mh_step nil))) /\ Policy.MH_sound = true /\
  Policy.ACQ = Policy.prop_iter 64%nat (map Policy.swap Policy.kept_calls) Policy.acq_init /\ Policy.ACQ_closed = true /\
  Policy.ORDER = Policy.dedup_edges Policy.order_edges.
Proof. exact C09.C09_tables. Qed.

(* bridge: a well-formed trace whose memory accesses are instances of the recorded sites
   (instantiation assumptions I0..I6 of proofs/C09.v, spelled out) is race free *)
Theorem C09_bridge :
  forall (tr : Lockset.trace) (site : nat -> Accesses.access) (obj : nat -> nat)
         (loc_of : nat -> String.string -> String.string -> Lockset.loc)
         (mtx : nat -> String.string -> Lockset.mutex) (guard : nat -> nat)
         (root_of : Lockset.tid -> String.string) (owner : nat -> Lockset.tid)
         (pol : Lockset.loc -> Lockset.discipline),
    (forall l, (exists i t w, Lockset.access_at tr i = Some (t, l, w)) \/ Lockset.obeys tr l (pol l)) ->
    (forall i t l w, Lockset.access_at tr i = Some (t, l, w) ->
       In (site i) Accesses.accesses /\ Accesses.a_ctor (site i) = false /\ Accesses.a_atomic (site i) = false /\
       l = loc_of (obj i) (Accesses.a_struct (site i)) (Accesses.a_field (site i)) /\ w = Accesses.a_write (site i)) ->
    (forall i t l w, Lockset.access_at tr i = Some (t, l, w) ->
       match Policy.policy_of (Accesses.a_struct (site i)) (Accesses.a_field (site i)) with
       | Some (Policy.LockedOwn m) => pol l = Lockset.Locked (mtx (obj i) m)
       | Some (Policy.LockedBy m) => pol l = Lockset.Locked (mtx (guard (obj i)) m)
       | Some (Policy.ConfinedTo _) => pol l = Lockset.Owned (owner (obj i))
       | Some Policy.Atomic => False
       | Some Policy.InitOnly | Some (Policy.HandedOff _) | None => Lockset.obeys tr l (pol l)
       end) ->
    (forall i t l w m, Lockset.access_at tr i = Some (t, l, w) ->
       existsb (fun h => (String.eqb (Accesses.h_mutex h) m && String.eqb (Accesses.h_owner h) (Accesses.a_base (site i)))%bool)
               (Policy.held_at (site i)) = true ->
       Lockset.holds tr i t (mtx (obj i) m)) ->
    (forall i t l w m, Lockset.access_at tr i = Some (t, l, w) ->
       existsb (fun h => String.eqb (Accesses.h_mutex h) m) (Policy.held_at (site i)) = true ->
       Lockset.holds tr i t (mtx (guard (obj i)) m)) ->
    (forall i t l w, Lockset.access_at tr i = Some (t, l, w) ->
       In (root_of t) (Policy.roots_reaching (Accesses.a_func (site i)))) ->
    (forall i t l w r, Lockset.access_at tr i = Some (t, l, w) ->
       Policy.policy_of (Accesses.a_struct (site i)) (Accesses.a_field (site i)) = Some (Policy.ConfinedTo r) ->
       root_of t <> "main"%string) ->
    (forall i t l w r, Lockset.access_at tr i = Some (t, l, w) ->
       Policy.policy_of (Accesses.a_struct (site i)) (Accesses.a_field (site i)) = Some (Policy.ConfinedTo r) ->
       root_of t = r -> t = owner (obj i)) ->
    Lockset.wf_trace tr -> Lockset.race_free tr.
Proof. exact C09.bridge_race_free. Qed.

(* ------------------------------------------------------------------ C11 / C10 / C08 (decode level) *)
From Model Require Import Bufio Pool.
From Model.proofs Require C11 C10 C08_parse.
(* ================= C11 ================= *)
(* key lemma: what ReadSlice returns depends on (remaining stream, window size) only *)
Theorem C11_read_slice_abs : forall st line status rest, C11.wf st ->
  C11.slice_spec (rd_size st) (alpha st) = (line, status, rest) ->
  exists st', read_slice st = Ok (line, status, st') /\
    alpha st' = rest /\ C11.wf st' /\ rd_size st' = rd_size st /\
    (status = RsFull -> rd_live st' = [] /\ rd_pre st' = line /\ rd_err st' = false).
Proof. exact C11.read_slice_abs. Qed.

(* readLine over the concrete reader = Message.read_line over the remaining bytes *)
Theorem C11_read_line_abs : forall st, C11.wf st ->
  match index_byte LF (alpha st) with
  | Some i => exists st', read_line_c st = Ok (Some (strip_cr (firstn i (alpha st))), st') /\
                          alpha st' = skipn (S i) (alpha st) /\ C11.wf st' /\ rd_size st' = rd_size st
  | None => (exists st', read_line_c st = Ok (None, st')) \/
            (alpha st <> [] /\ exists st', read_line_c st = Ok (Some (alpha st), st') /\
                                          alpha st' = [] /\ C11.wf st' /\ rd_size st' = rd_size st)
  end.
Proof. exact C11.read_line_c_abs. Qed.

Theorem C11_framing : forall size cs, Forall C11.nonempty cs ->
  (2 * Z.of_nat (List.length (List.concat cs)) <= make_limit)%Z ->
  parse_conn size cs = parse_stream (S (List.length (List.concat cs))) (List.concat cs).
Proof. exact C11.C11_framing. Qed.

Theorem C11_segmentation_independent : forall size1 size2 cs1 cs2,
  Forall C11.nonempty cs1 -> Forall C11.nonempty cs2 -> List.concat cs1 = List.concat cs2 ->
  (2 * Z.of_nat (List.length (List.concat cs1)) <= make_limit)%Z ->
  parse_conn size1 cs1 = parse_conn size2 cs2.
Proof. exact C11.C11_segmentation_independent. Qed.

Theorem C11_exact : forall ms tail,
  Forall C11.wf_msg ms -> Forall (fun c => is_space c = true) tail ->
  parse_stream (S (List.length (C11.encode_all ms ++ tail))) (C11.encode_all ms ++ tail) = map C11.expected ms.
Proof. exact C11.C11_exact. Qed.

Theorem C11_exact_segmented : forall size cs ms tail,
  Forall C11.wf_msg ms -> Forall (fun c => is_space c = true) tail ->
  Forall C11.nonempty cs -> List.concat cs = C11.encode_all ms ++ tail ->
  (2 * Z.of_nat (List.length (List.concat cs)) <= make_limit)%Z ->
  parse_conn size cs = map C11.expected ms.
Proof. exact C11.C11_exact_segmented. Qed.

Theorem C11_legacy_refuted :
  exists size cs1 cs2, List.concat cs1 = List.concat cs2 /\ Forall C11.nonempty cs1 /\ Forall C11.nonempty cs2 /\
    C11.line_of (read_line_legacy (new_reader size cs1)) <> C11.line_of (read_line_legacy (new_reader size cs2)) /\
    C11.line_of (read_line_legacy (new_reader size cs1)) <> Some (s2b "SIP/2.0 404 Not Found") /\
    C11.line_of (read_line_c (new_reader size cs1)) = Some (s2b "SIP/2.0 404 Not Found") /\
    C11.line_of (read_line_c (new_reader size cs2)) = Some (s2b "SIP/2.0 404 Not Found").
Proof. exact C11.C11_legacy_refuted. Qed.

Theorem C11_legacy_refuted_4096 :
  fst (fst (parse_conn_legacy_full 4096%nat [C11.long_stream])) <>
    parse_stream (S (List.length C11.long_stream)) C11.long_stream /\
  parse_conn 4096%nat [C11.long_stream] = parse_stream (S (List.length C11.long_stream)) C11.long_stream /\
  List.length (parse_stream (S (List.length C11.long_stream)) C11.long_stream) = 1%nat.
Proof. exact C11.C11_legacy_refuted_4096. Qed.

(* ================= C10 ================= *)
Theorem C10_isolated : forall stale d,
  (2 * Z.of_nat (List.length stale) <= make_limit)%Z ->
  udp_parse (fst (recv stale d)) (snd (recv stale d)) = parse_bytes (firstn (List.length stale) d).
Proof. exact C10.C10_isolated. Qed.

Theorem C10_isolated_fits : forall stale d, (List.length d <= List.length stale)%nat ->
  (2 * Z.of_nat (List.length stale) <= make_limit)%Z ->
  udp_parse (fst (recv stale d)) (snd (recv stale d)) = parse_bytes d.
Proof. exact C10.C10_isolated_fits. Qed.

Theorem C10_history : forall evs u, C10.udp_wf u ->
  (2 * Z.of_nat (p_asize (u_pool u)) <= make_limit)%Z ->
  snd (udp_run udp_parse u evs) = udp_spec (p_asize (u_pool u)) (queued_dgrams u) evs.
Proof. exact C10.C10_history. Qed.

Theorem C10_short_discarded : forall d,
  match parse_bytes d with
  | Ok m => exists hdr rest, d = hdr ++ m_body m ++ rest /\
              (exists h0, hdr = h0 ++ [LF; LF] \/ hdr = h0 ++ [LF; CR; LF]) /\
              get_header_int (s2b "Content-Length") m = Ok (Z.of_nat (List.length (m_body m)))
  | Err => True
  | Panic => False
  end.
Proof. exact C10.C10_short_discarded. Qed.

Theorem C10_pool_exclusive : forall maxcap asize evs s',
  prun (new_pool maxcap asize, []) evs = Some s' -> NoDup (pool_ids s').
Proof. exact C10.C10_pool_exclusive. Qed.

Theorem C10_pool_exclusive_udp : forall maxcap asize evs,
  NoDup (udp_ids (fst (udp_run udp_parse (new_udp maxcap asize) evs))).
Proof. exact C10.C10_pool_exclusive_udp. Qed.

Theorem C10_legacy_refuted :
  parse_bytes C10.d_second = Err /\
  udp_parse (fst (recv C10.stale_buf C10.d_second)) (snd (recv C10.stale_buf C10.d_second)) = Err /\
  (exists m, udp_parse_legacy (fst (recv C10.stale_buf C10.d_second)) (snd (recv C10.stale_buf C10.d_second)) = Ok m /\
             m_body m = s2b "ABCDET-BYTES-OF-THE-EARLIER-DATAGRAM-#1!") /\
  (exists m, udp_parse_wholebuf (fst (recv C10.stale_buf C10.d_second)) (snd (recv C10.stale_buf C10.d_second)) = Ok m /\
             m_body m = s2b "ABCDET-BYTES-OF-THE-EARLIER-DATAGRAM-#1!").
Proof. exact C10.C10_legacy_refuted. Qed.

(* ================= C08 (parse part) ================= *)
Theorem C08_parse_no_panic : forall size cs, Forall C11.nonempty cs ->
  (2 * Z.of_nat (List.length (List.concat cs)) <= make_limit)%Z ->
  snd (fst (parse_conn_full size cs)) = EndErr.
Proof. exact C08_parse.C08_parse_no_panic. Qed.

Theorem C08_parse_terminates : forall size cs, Forall C11.nonempty cs ->
  (2 * Z.of_nat (List.length (List.concat cs)) <= make_limit)%Z ->
  snd (fst (parse_conn_full size cs)) <> EndFuel /\ snd (fst (parse_conn_full size cs)) <> EndPanic.
Proof. exact C08_parse.C08_parse_terminates. Qed.

Theorem C08_alloc_bounded : forall size cs, Forall C11.nonempty cs ->
  (2 * Z.of_nat (List.length (List.concat cs)) <= make_limit)%Z ->
  (snd (parse_conn_full size cs) <= 4 * Z.of_nat (List.length (List.concat cs)) + 65536)%Z.
Proof. exact C08_parse.C08_alloc_bounded. Qed.

Theorem C08_parse_no_panic_udp : forall buf n,
  (2 * Z.of_nat (List.length (firstn n buf)) <= make_limit)%Z ->
  udp_parse buf n <> Panic /\
  (snd (udp_parse_a buf n) <= 4 * Z.of_nat (List.length (firstn n buf)) + 65536)%Z.
Proof. exact C08_parse.C08_parse_no_panic_udp. Qed.

Theorem C08_parse_legacy_refuted :
  snd (fst (parse_conn_legacy_full 4096%nat [C08_parse.absurd "4611686018427387904"])) = EndPanic /\
  udp_parse_legacy (C08_parse.absurd "4611686018427387904") 68%nat = Panic /\
  snd (parse_conn_legacy_full 4096%nat [C08_parse.absurd "1073741824"]) = 1073741824%Z /\
  parse_conn_full 4096%nat [C08_parse.absurd "4611686018427387904"] = ([], EndErr, 65536%Z) /\
  parse_conn_full 4096%nat [C08_parse.absurd "1073741824"] = ([], EndErr, 65536%Z).
Proof. exact C08_parse.C08_legacy_refuted. Qed.

(* ------------------------------------------------------------------ C01 *)
From Model Require Import Bytes Wire Uri Hdr Message Msg StaticRoute RoundRobin Pins Proxy RunProxy SpecC14 SpecProxy SpecProxy2.
From Model.proofs Require MsgLemmas C01.
Section P_C01.
Import MsgLemmas C01.
Theorem C01_relay_preserves :
  forall e peer peer_port from rs tcp m x x',
    stable m ->
    process_message e peer peer_port from rs tcp m x = Ok x' ->
    exists pre, x_outs x' = x_outs x ++ pre /\
      forall d b, In (d, b) pre ->
        match d with
        | DDial _ _ _ => b = []
        | _ => exists m', b = write_message m' /\ view m' = view m
        end.
Proof. first [ exact C01.C01_relay_preserves | intros; eapply C01.C01_relay_preserves; eassumption ]. Qed.
Theorem C01_proxy_step_udp :
  forall fx c now branch st li src sport data m rest st' outs,
    parse_message data = Ok (m, rest) -> stable m ->
    proxy_step fx c now branch st (EvUdp li src sport data) = Ok (st', outs) ->
    forall d b, In (d, b) outs -> good m d b.
Proof. first [ exact C01.C01_proxy_step_udp | intros; eapply C01.C01_proxy_step_udp; eassumption ]. Qed.
Theorem C01_proxy_step_tcp :
  forall fx c now branch st cid data st' outs,
    (forall m, In m (parse_stream (S (List.length data)) data) -> stable m) ->
    proxy_step fx c now branch st (EvTcpData cid data) = Ok (st', outs) ->
    forall d b, In (d, b) outs ->
      exists m, In m (parse_stream (S (List.length data)) data) /\ good m d b.
Proof. first [ exact C01.C01_proxy_step_tcp | intros; eapply C01.C01_proxy_step_tcp; eassumption ]. Qed.
Theorem C01_stable_on_c14_domain m : Forall c14_domain_h (m_headers m) -> stable m.
Proof. first [ exact C01.stable_on_c14_domain | intros; eapply C01.stable_on_c14_domain; eassumption ]. Qed.
Theorem C01_stable_necessary :
  parse_cseq (s2b "0001 INVITE") = Ok {| cs_seq := 1; cs_method := s2b "INVITE" |} /\
  cseq_print {| cs_seq := 1; cs_method := s2b "INVITE" |} = s2b "1 INVITE" /\
  ~ stable ex_unstable /\
  view (fst (s_get_cseq ex_unstable)) <> view ex_unstable /\
  view_hs (m_headers (fst (s_get_cseq ex_unstable))) = [(s2b "CSeq", s2b "1 INVITE")].
Proof. first [ exact C01.C01_stable_necessary | intros; eapply C01.C01_stable_necessary; eassumption ]. Qed.
Theorem C01_single_content_length m :
  write_message m =
    start_line_print (m_start m) ++ crlf ++ flat_map header_print (emitted_headers m) ++ crlf ++ m_body m
  /\ emitted_headers m = filter (fun h => negb (is_cl_h h)) (m_headers m) ++ [cl_header m]
  /\ Forall (fun h => is_cl_h h = false) (filter (fun h => negb (is_cl_h h)) (m_headers m))
  /\ is_cl_h (cl_header m) = true
  /\ header_print (cl_header m) =
       s2b "Content-Length: " ++ itoa (Z.of_nat (List.length (m_body m))) ++ crlf
  /\ List.length (filter is_cl_h (emitted_headers m)) = 1%nat.
Proof. first [ exact C01.C01_single_content_length | intros; eapply C01.C01_single_content_length; eassumption ]. Qed.
Theorem C01_single_content_length_read m :
  line_safe m -> start_ok (start_line_print (m_start m)) ->
  (Z.of_nat (List.length (m_body m)) <= int_max)%Z ->
  j_read (write_message m) =
    Some {| jm_start := start_line_print (m_start m);
            jm_headers := map (fun h => jpair (hpair h)) (emitted_headers m);
            jm_body := m_body m; jm_rest := [];
            jm_has_cl := true; jm_cl_count := 1;
            jm_cl_value := Some (Z.of_nat (List.length (m_body m))) |}.
Proof. first [ exact C01.C01_single_content_length_read | intros; eapply C01.C01_single_content_length_read; eassumption ]. Qed.
Theorem C01_judge_bridge_partial b jin m rest m' :
  j_read b = Some jin -> parse_message b = Ok (m, rest) ->
  start_line_print (m_start m) = jm_start jin ->
  view m' = view m -> line_safe m' ->
  exists jo, j_read (write_message m') = Some jo /\ judge_C01_pair jin jo = 0%nat.
Proof. first [ exact C01.C01_judge_bridge_partial | intros; eapply C01.C01_judge_bridge_partial; eassumption ]. Qed.
Theorem C01_judge_bridge_request b jin m rest m' meth u ver a :
  j_read b = Some jin -> in_domain_C01 jin = true -> parse_message b = Ok (m, rest) ->
  j_is_response jin = false -> fields (jm_start jin) = [meth; u; ver] ->
  fields_go (jm_start jin) = fields (jm_start jin) ->
  wf_addr a = true -> u = rp_addr a ->
  view m' = view m -> line_safe m' ->
  exists jo, j_read (write_message m') = Some jo /\ judge_C01_pair jin jo = 0%nat.
Proof. first [ exact C01.C01_judge_bridge_request | intros; eapply C01.C01_judge_bridge_request; eassumption ]. Qed.
Theorem C01_judge_bridge_response b jin m rest m' ver c r1 rs code :
  j_read b = Some jin -> in_domain_C01 jin = true -> parse_message b = Ok (m, rest) ->
  j_is_response jin = true -> fields (jm_start jin) = ver :: c :: r1 :: rs ->
  fields_go (jm_start jin) = fields (jm_start jin) ->
  atoi c = Some code -> itoa code = c ->
  view m' = view m -> line_safe m' ->
  exists jo, j_read (write_message m') = Some jo /\ judge_C01_pair jin jo = 0%nat.
Proof. first [ exact C01.C01_judge_bridge_response | intros; eapply C01.C01_judge_bridge_response; eassumption ]. Qed.
Theorem C01_judge_relay b jin m rest e peer peer_port from rs tcp x x' :
  j_read b = Some jin -> parse_message b = Ok (m, rest) ->
  start_line_print (m_start m) = jm_start jin -> stable m ->
  process_message e peer peer_port from rs tcp m x = Ok x' ->
  exists pre, x_outs x' = x_outs x ++ pre /\
    forall d o, In (d, o) pre ->
      match d with
      | DDial _ _ _ => o = []
      | _ => exists m', o = write_message m' /\
                        (line_safe m' -> exists jo, j_read o = Some jo /\ judge_C01_pair jin jo = 0%nat)
      end.
Proof. first [ exact C01.C01_judge_relay | intros; eapply C01.C01_judge_relay; eassumption ]. Qed.
Theorem C01_legacy_refuted :
  parse_message ex_legacy_input = Ok (parsed ex_legacy_input, []) /\
  option_map in_domain_C01 (j_read ex_legacy_input) = Some true /\
  stable (parsed ex_legacy_input) /\
  write_message_legacy (parsed ex_legacy_input) =
    s2b "INVITE sip:svc@example.com SIP/2.0" ++ crlf ++ s2b "l: 3" ++ crlf ++
    s2b "Content-Length: 3" ++ crlf ++ crlf ++ s2b "abc" /\
  option_map jm_cl_count (j_read (write_message_legacy (parsed ex_legacy_input))) = Some 2%nat /\
  judge_bytes ex_legacy_input (write_message_legacy (parsed ex_legacy_input)) = Some 5%nat /\
  option_map jm_cl_count (j_read (write_message (parsed ex_legacy_input))) = Some 1%nat /\
  judge_bytes ex_legacy_input (write_message (parsed ex_legacy_input)) = Some 0%nat.
Proof. first [ exact C01.C01_legacy_refuted | intros; eapply C01.C01_legacy_refuted; eassumption ]. Qed.
End P_C01.

(* ------------------------------------------------------------------ C08 *)
From Model Require Import Bytes Wire Uri Hdr Message Msg StaticRoute RoundRobin Pins Proxy RunProxy SpecC14 SpecProxy SpecProxy2.
From Model.proofs Require C08.
Section P_C08.
Import C08.
Local Close Scope Z_scope.
Theorem C08_process_message_ok : forall e peer pp from rs tcp m0 x,
  fx_bracket_host (e_fx e) = true ->
  exists x', process_message e peer pp from rs tcp m0 x = Ok x'.
Proof. first [ exact C08.C08_process_message_ok | intros; eapply C08.C08_process_message_ok; eassumption ]. Qed.
Theorem C08_process_message_no_panic : forall e peer pp from rs tcp m0 x,
  fx_bracket_host (e_fx e) = true -> process_message e peer pp from rs tcp m0 x <> Panic.
Proof. first [ exact C08.C08_process_message_no_panic | intros; eapply C08.C08_process_message_no_panic; eassumption ]. Qed.
Theorem C08_tcp_messages_ok : forall fuel e c s x,
  fx_bracket_host (e_fx e) = true -> exists x', tcp_messages fuel e c s x = Ok x'.
Proof. first [ exact C08.C08_tcp_messages_ok | intros; eapply C08.C08_tcp_messages_ok; eassumption ]. Qed.
Theorem C08_tcp_messages_no_panic : forall fuel e c s x,
  fx_bracket_host (e_fx e) = true -> tcp_messages fuel e c s x <> Panic.
Proof. first [ exact C08.C08_tcp_messages_no_panic | intros; eapply C08.C08_tcp_messages_no_panic; eassumption ]. Qed.
Theorem C08_never_err_gen : forall fx c now branch st ev, fx_bracket_host fx = true ->
  exists st' outs, proxy_step fx c now branch st ev = Ok (st', outs).
Proof. first [ exact C08.C08_never_err_gen | intros; eapply C08.C08_never_err_gen; eassumption ]. Qed.
Theorem C08_never_err : forall c now branch st ev,
  exists st' outs, proxy_step all_fixed c now branch st ev = Ok (st', outs).
Proof. first [ exact C08.C08_never_err | intros; eapply C08.C08_never_err; eassumption ]. Qed.
Theorem C08_no_panic_gen : forall fx c now branch st ev, fx_bracket_host fx = true ->
  proxy_step fx c now branch st ev <> Panic.
Proof. first [ exact C08.C08_no_panic_gen | intros; eapply C08.C08_no_panic_gen; eassumption ]. Qed.
Theorem C08_no_panic : forall c now branch st ev, proxy_step all_fixed c now branch st ev <> Panic.
Proof. first [ exact C08.C08_no_panic | intros; eapply C08.C08_no_panic; eassumption ]. Qed.
Theorem C08_legacy_refuted :
  step2 legacy_bracket = Panic /\
  (exists st', step2 all_fixed = Ok (st', []) /\ conn_open (st_conns st') 0 = true).
Proof. first [ exact C08.C08_legacy_refuted | intros; eapply C08.C08_legacy_refuted; eassumption ]. Qed.
Theorem C08_discard_udp : forall fx c now branch st li src sport data, undecodable data ->
  proxy_step fx c now branch st (EvUdp li src sport data) = Ok (st, []).
Proof. first [ exact C08.C08_discard_udp | intros; eapply C08.C08_discard_udp; eassumption ]. Qed.
Theorem C08_discard_tcp : forall fx c now branch st cid data, garbage data ->
  proxy_step fx c now branch st (EvTcpData cid data) =
  Ok (if tcp_live c st cid then close_state cid st else st, []).
Proof. first [ exact C08.C08_discard_tcp | intros; eapply C08.C08_discard_tcp; eassumption ]. Qed.
Theorem C08_garbage_is_close : forall fx c now branch st cid data, garbage data -> tcp_live c st cid = true ->
  proxy_step fx c now branch st (EvTcpData cid data) = proxy_step fx c now branch st (EvTcpClose cid).
Proof. first [ exact C08.C08_garbage_is_close | intros; eapply C08.C08_garbage_is_close; eassumption ]. Qed.
Theorem C08_tcp_garbage_after : forall d d1 m rest rest1 e c x,
  parse_message d = Ok (m, rest) -> garbage rest ->
  parse_message d1 = Ok (m, rest1) -> trim_left rest1 = [] ->
  tcp_messages (S (List.length d)) e c d x =
  rmap (close_ctx (cn_id c)) (tcp_messages (S (List.length d1)) e c d1 x).
Proof. first [ exact C08.C08_tcp_garbage_after | intros; eapply C08.C08_tcp_garbage_after; eassumption ]. Qed.
Theorem C08_discard_tcp_after : forall fx c now branch st cid d d1 m rest rest1 st1 outs1,
  parse_message d = Ok (m, rest) -> garbage rest ->
  parse_message d1 = Ok (m, rest1) -> trim_left rest1 = [] ->
  tcp_live c st cid = true ->
  proxy_step fx c now branch st (EvTcpData cid d1) = Ok (st1, outs1) ->
  proxy_step fx c now branch st (EvTcpData cid d) = Ok (close_state cid st1, outs1).
Proof. first [ exact C08.C08_discard_tcp_after | intros; eapply C08.C08_discard_tcp_after; eassumption ]. Qed.
Theorem C08_serves_after : forall fx c st evs1 evs2 now branch li src sport d, undecodable d ->
  run_steps fx c st (evs1 ++ (now, branch, EvUdp li src sport d) :: evs2) =
  rmap (fun '(st', os) => (st', insert_at (List.length evs1) [] os)) (run_steps fx c st (evs1 ++ evs2)).
Proof. first [ exact C08.C08_serves_after | intros; eapply C08.C08_serves_after; eassumption ]. Qed.
Theorem C08_serves_after_tcp : forall fx c st evs1 evs2 now branch cid d st1 os1, garbage d ->
  run_steps fx c st evs1 = Ok (st1, os1) ->
  run_steps fx c st (evs1 ++ (now, branch, EvTcpData cid d) :: evs2) =
  run_steps fx c st (evs1 ++ (if tcp_live c st1 cid then [(now, branch, EvTcpClose cid)]
                              else [(now, branch, EvUdp 0 [] 0%Z [])]) ++ evs2).
Proof. first [ exact C08.C08_serves_after_tcp | intros; eapply C08.C08_serves_after_tcp; eassumption ]. Qed.
Theorem C08_output_bounded : forall fx c now branch st ev st' outs,
  proxy_step fx c now branch st ev = Ok (st', outs) ->
  count_msg outs <= msgs_in ev /\ List.length outs <= 2 * msgs_in ev.
Proof. first [ exact C08.C08_output_bounded | intros; eapply C08.C08_output_bounded; eassumption ]. Qed.
End P_C08.

(* ------------------------------------------------------------------ C17 *)
From Model Require Import Bytes Wire Uri Hdr Message Msg StaticRoute RoundRobin Pins Proxy RunProxy SpecC14 SpecProxy SpecProxy2.
From Model.proofs Require C17.
Section P_C17.
Import C17.
Local Close Scope Z_scope.
Theorem C17_same_header_equiv : forall n1 n2, same_header n1 n2 = true <-> canon n1 = canon n2.
Proof. first [ exact C17.C17_same_header_equiv | intros; eapply C17.C17_same_header_equiv; eassumption ]. Qed.
Theorem C17_same_header_refl : forall n, same_header n n = true.
Proof. first [ exact C17.C17_same_header_refl | intros; eapply C17.C17_same_header_refl; eassumption ]. Qed.
Theorem C17_same_header_sym : forall a b, same_header a b = same_header b a.
Proof. first [ exact C17.C17_same_header_sym | intros; eapply C17.C17_same_header_sym; eassumption ]. Qed.
Theorem C17_same_header_trans : forall a b c, same_header a b = true -> same_header b c = true -> same_header a c = true.
Proof. first [ exact C17.C17_same_header_trans | intros; eapply C17.C17_same_header_trans; eassumption ]. Qed.
Theorem C17_one_content_length : forall m,
  List.length (filter (fun h => same_header (h_name h) (s2b "Content-Length")) (out_headers m)) = 1.
Proof. first [ exact C17.C17_one_content_length | intros; eapply C17.C17_one_content_length; eassumption ]. Qed.
Theorem C17_written_respelled : forall w1 w2, respelled w1 w2 ->
  write_message w1 = start_line_print (m_start w1) ++ crlf ++ flat_map header_print (out_headers w1) ++ crlf ++ m_body w1 /\
  write_message w2 = start_line_print (m_start w1) ++ crlf ++ flat_map header_print (out_headers w2) ++ crlf ++ m_body w1 /\
  hs_rel (out_headers w1) (out_headers w2) /\
  List.length (filter (fun h => same_header (h_name h) (s2b "Content-Length")) (out_headers w1)) = 1 /\
  List.length (filter (fun h => same_header (h_name h) (s2b "Content-Length")) (out_headers w2)) = 1.
Proof. first [ exact C17.C17_written_respelled | intros; eapply C17.C17_written_respelled; eassumption ]. Qed.
Theorem C17_respell_invariance : forall e peer pp from rs tcp m1 m2 x1 x2,
  respelled m1 m2 -> ctx_rel respelled x1 x2 ->
  opt_rel respelled (pm_written e peer pp from rs tcp m1 x1) (pm_written e peer pp from rs tcp m2 x2) /\
  (fits_opt (pm_written e peer pp from rs tcp m1 x1) = fits_opt (pm_written e peer pp from rs tcp m2 x2) ->
   res_ctx_rel respelled (process_message e peer pp from rs tcp m1 x1) (process_message e peer pp from rs tcp m2 x2)).
Proof. first [ exact C17.C17_respell_invariance | intros; eapply C17.C17_respell_invariance; eassumption ]. Qed.
Theorem C17_respell_invariance_fun : forall s e peer pp from rs tcp m x, spelling s ->
  opt_rel respelled (pm_written e peer pp from rs tcp (respell s m) x) (pm_written e peer pp from rs tcp m x) /\
  (fits_opt (pm_written e peer pp from rs tcp (respell s m) x) = fits_opt (pm_written e peer pp from rs tcp m x) ->
   res_ctx_rel respelled (process_message e peer pp from rs tcp (respell s m) x) (process_message e peer pp from rs tcp m x)).
Proof. first [ exact C17.C17_respell_invariance_fun | intros; eapply C17.C17_respell_invariance_fun; eassumption ]. Qed.
Theorem C17_relayout_invariance : forall e peer pp from rs tcp m1 m2 x1 x2,
  relaid m1 m2 -> ctx_rel relaid x1 x2 ->
  opt_rel relaid (pm_written e peer pp from rs tcp m1 x1) (pm_written e peer pp from rs tcp m2 x2) /\
  (fits_opt (pm_written e peer pp from rs tcp m1 x1) = fits_opt (pm_written e peer pp from rs tcp m2 x2) ->
   res_ctx_rel relaid (process_message e peer pp from rs tcp m1 x1) (process_message e peer pp from rs tcp m2 x2)).
Proof. first [ exact C17.C17_relayout_invariance | intros; eapply C17.C17_relayout_invariance; eassumption ]. Qed.
Theorem C17_written_relaid : forall w1 w2, relaid w1 w2 ->
  m_start w1 = m_start w2 /\ m_body w1 = m_body w2 /\
  flatten_vias w1 = flatten_vias w2 /\ flatten_routes w1 = flatten_routes w2 /\
  plain_headers w1 = plain_headers w2.
Proof. first [ exact C17.C17_written_relaid | intros; eapply C17.C17_written_relaid; eassumption ]. Qed.
Theorem C17_pop_via_flat : forall m1 m2, relaid m1 m2 ->
  flatten_vias (fst (s_pop_via m1)) = flatten_vias (fst (s_pop_via m2)) /\ snd (s_pop_via m1) = snd (s_pop_via m2) /\
  flatten_vias m1 = flatten_vias m2 /\ snd (s_all_via_params m1) = snd (s_all_via_params m2) /\
  snd (next_response_hop m1) = snd (next_response_hop m2).
Proof. first [ exact C17.C17_pop_via_flat | intros; eapply C17.C17_pop_via_flat; eassumption ]. Qed.
Theorem C17_route_layout : forall c from keep m1 m2, relaid m1 m2 ->
  (snd (try_remove_top_route c from m1) = snd (try_remove_top_route c from m2) /\
   flatten_routes (fst (try_remove_top_route c from m1)) = flatten_routes (fst (try_remove_top_route c from m2))) /\
  (snd (next_hop_by_route keep m1) = snd (next_hop_by_route keep m2) /\
   flatten_routes (fst (next_hop_by_route keep m1)) = flatten_routes (fst (next_hop_by_route keep m2))) /\
  (snd (s_pop_route m1) = snd (s_pop_route m2) /\
   flatten_routes (fst (s_pop_route m1)) = flatten_routes (fst (s_pop_route m2))).
Proof. first [ exact C17.C17_route_layout | intros; eapply C17.C17_route_layout; eassumption ]. Qed.
Theorem C17_respell_udp : forall fx c now br st li src sport d1 d2 m1 m2 r1 r2 lc p,
  parse_message d1 = Ok (m1, r1) -> parse_message d2 = Ok (m2, r2) -> respelled m1 m2 ->
  nth_opt (c_listens c) li = Some lc -> nth_p (st_proxies st) li = Some p ->
  let e := mk_env fx c (item_rs_of (fx_wiring fx)) li lc now br in
  let x := {| x_learned := st_learned st; x_p := p; x_conns := st_conns st; x_world := st_world st; x_outs := [] |} in
  let from := {| t_kind := KUdp; t_addr := lc_addr lc; t_port := lc_udp lc |} in
  fits_opt (pm_written e src sport from (e_item_rs e) None m1 x) = fits_opt (pm_written e src sport from (e_item_rs e) None m2 x) ->
  match proxy_step fx c now br st (EvUdp li src sport d1), proxy_step fx c now br st (EvUdp li src sport d2) with
  | Ok (st1, o1), Ok (st2, o2) => st1 = st2 /\ outs_rel respelled o1 o2
  | Err, Err => True
  | Panic, Panic => True
  | _, _ => False
  end.
Proof. first [ exact C17.C17_respell_udp | intros; eapply C17.C17_respell_udp; eassumption ]. Qed.
Theorem C17_relayout_udp : forall fx c now br st li src sport d1 d2 m1 m2 r1 r2 lc p,
  parse_message d1 = Ok (m1, r1) -> parse_message d2 = Ok (m2, r2) -> relaid m1 m2 ->
  nth_opt (c_listens c) li = Some lc -> nth_p (st_proxies st) li = Some p ->
  let e := mk_env fx c (item_rs_of (fx_wiring fx)) li lc now br in
  let x := {| x_learned := st_learned st; x_p := p; x_conns := st_conns st; x_world := st_world st; x_outs := [] |} in
  let from := {| t_kind := KUdp; t_addr := lc_addr lc; t_port := lc_udp lc |} in
  fits_opt (pm_written e src sport from (e_item_rs e) None m1 x) = fits_opt (pm_written e src sport from (e_item_rs e) None m2 x) ->
  match proxy_step fx c now br st (EvUdp li src sport d1), proxy_step fx c now br st (EvUdp li src sport d2) with
  | Ok (st1, o1), Ok (st2, o2) => st1 = st2 /\ outs_rel relaid o1 o2
  | Err, Err => True
  | Panic, Panic => True
  | _, _ => False
  end.
Proof. first [ exact C17.C17_relayout_udp | intros; eapply C17.C17_relayout_udp; eassumption ]. Qed.
End P_C17.

(* ------------------------------------------------------------------ C12 *)
From Model Require Import Bytes Wire Uri Hdr Message Msg StaticRoute RoundRobin Pins Proxy RunProxy SpecC14 SpecProxy SpecProxy2.
From Model.proofs Require C04 C12.
Section P_C12.
Import C04 C12.
Theorem C12_register : forall e peer pport from rs c m x x' v cs br h0 pt tr0 host,
  fx_resolved_key (e_fx e) = true ->
  is_request m = true -> not_forwarded e m ->
  top_via_of m = Ok v -> snd (s_get_cseq m) = Ok cs -> via_get_branch v = Some br ->
  hop_of_via (stamp_via rs peer pport v) = (h0, pt, tr0) -> reg_host (e_fx e) h0 = Ok host ->
  process_message e peer pport from rs (Some c) m x = Ok x' ->
  let K := full_addr tcp (resolve (e_cfg e) host) pt (cs_method cs ++ "-"%char :: br) in
  reg_at K c (now_s e + 3600) (x_p x') /\ x_conns x' = x_conns x /\
  (* every other entry is as it was *)
  (forall K' f, alookup K' (ps_table (x_p x)) = Some f -> keepable (now_s e) f ->
                K' <> K -> K' <> full_addr tcp (resolve (e_cfg e) host) pt [] ->
                alookup K' (ps_table (x_p x')) = Some f).
Proof. first [ exact C12.C12_register | intros; eapply C12.C12_register; eassumption ]. Qed.
Theorem C12_lookup : forall e peer pport from rs tcp0 m x v host pt tr cs br c ex,
  is_request m = false ->
  next_top m = Ok v -> hop_of_via v = (host, pt, tr) -> to_lower tr = tcp ->
  snd (s_get_cseq m) = Ok cs -> via_get_branch v = Some br ->
  let K := full_addr tcp (resolve (e_cfg e) host) pt (cs_method cs ++ "-"%char :: br) in
  reg_at K c ex (x_p x) -> live (now_s e) ex -> conn_open (x_conns x) c = true ->
  exists x' b, process_message e peer pport from rs tcp0 m x = Ok x' /\
    (* written to c and to nothing else *)
    x_outs x' = x_outs x ++ [(DConn c, b)] /\ x_conns x' = x_conns x /\
    (* a provisional response leaves the entry in place *)
    (is_final_response m = false -> reg_at K c ex (x_p x')) /\
    (* a final response consumes it, AFTER having been sent through it *)
    (is_final_response m = true -> fx_resolved_key (e_fx e) = true -> alookup K (ps_table (x_p x')) = None).
Proof. first [ exact C12.C12_lookup | intros; eapply C12.C12_lookup; eassumption ]. Qed.
Theorem C12_until_final : forall e peer pport from rs tcp0 m x v host pt tr cs br c ex,
  is_request m = false ->
  next_top m = Ok v -> hop_of_via v = (host, pt, tr) -> to_lower tr = tcp ->
  snd (s_get_cseq m) = Ok cs -> via_get_branch v = Some br ->
  reg_at (full_addr tcp (resolve (e_cfg e) host) pt (cs_method cs ++ "-"%char :: br)) c ex (x_p x) ->
  live (now_s e) ex -> conn_open (x_conns x) c = true ->
  exists x' b, process_message e peer pport from rs tcp0 m x = Ok x' /\ x_outs x' = x_outs x ++ [(DConn c, b)].
Proof. first [ exact C12.C12_until_final | intros; eapply C12.C12_until_final; eassumption ]. Qed.
Theorem C12_same_connection : forall cf li lc h1 tq bq c dataq h2 tr br peer pport datar st0 stf outss
    st1 o1 cn pq mq restq mr restr v cs brq h0 pt tr0 host v2 host2 trr cs2,
  nth_opt (c_listens cf) li = Some lc ->
  run all_fixed cf st0 (h1 ++ (tq, bq, EvTcpData c dataq) :: h2 ++ [(tr, br, EvUdp li peer pport datar)]) = Ok (stf, outss) ->
  run all_fixed cf st0 h1 = Ok (st1, o1) ->
  (* c is an open connection of listener li *)
  find (fun x => Nat.eqb (cn_id x) c) (st_conns st1) = Some cn -> cn_open cn = true -> cn_li cn = li ->
  nth_p (st_proxies st1) li = Some pq ->
  (* the request: one complete message, not relayed along a Route / static route *)
  parse_message dataq = Ok (mq, restq) -> trim_left restq = [] ->
  is_request mq = true -> not_forwarded (mk_env all_fixed cf (item_rs_of true) li lc tq bq) mq ->
  top_via_of mq = Ok v -> snd (s_get_cseq mq) = Ok cs -> via_get_branch v = Some brq ->
  hop_of_via (stamp_via (cn_received_support cn) (cn_peer cn) (cn_peer_port cn) v) = (h0, pt, tr0) ->
  reg_host all_fixed h0 = Ok host ->
  (* the entry is filed under the RESOLVED response host *)
  let K := full_addr tcp (resolve cf host) pt (cs_method cs ++ "-"%char :: brq) in
  let ex := tq / second + 3600 in
  (* in between: nothing that touches K except provisional responses of the transaction itself;
     c is not closed; less than 3600 s *)
  (forall st2 oq, proxy_step all_fixed cf tq bq st1 (EvTcpData c dataq) = Ok (st2, oq) ->
                  hist_away li K c ex all_fixed cf st2 h2) ->
  (* the response: the client's Via entry under the proxy's: a response host that resolves to the
     same address (in particular the same text), same port, same branch, same CSeq method *)
  parse_message datar = Ok (mr, restr) -> is_request mr = false ->
  next_top mr = Ok v2 -> hop_of_via v2 = (host2, pt, trr) -> to_lower trr = tcp ->
  snd (s_get_cseq mr) = Ok cs2 -> cs_method cs2 = cs_method cs -> via_get_branch v2 = Some brq ->
  resolve cf host2 = resolve cf host -> tr / second <= ex ->
  exists b, last outss [] = [(DConn c, b)].
Proof. first [ exact C12.C12_same_connection | intros; eapply C12.C12_same_connection; eassumption ]. Qed.
Theorem C12_legacy_refuted :
  (* before the repair (fx_resolved_key = false) *)
  dests (run legacy_key_fixes b2_cfg (init_state b2_cfg 0 []) b2_hist) = [ []; [DUdp (s2b "10.0.0.11") 5070]; [] ] /\
  dests (run legacy_key_fixes b2_cfg (init_state b2_cfg 0 [(s2b "10.0.0.50", 5060)]) b2_hist) =
    [ []; [DUdp (s2b "10.0.0.11") 5070]; [DDial (s2b "10.0.0.50") 5060 1; DConn 1] ] /\
  keys_of (run legacy_key_fixes b2_cfg (init_state b2_cfg 0 []) (firstn 2 b2_hist)) =
    map s2b ["tcp://10.0.0.50:40001"; "tcp://client.example:5060"; "tcp://client.example:5060-INVITE-z9hG4bKa"]%string /\
  keys_of (run legacy_key_fixes b2_cfg (init_state b2_cfg 0 []) b2_hist) =
    map s2b ["tcp://10.0.0.50:40001"; "tcp://client.example:5060"; "tcp://10.0.0.50:5060";
             "tcp://10.0.0.50:5060-INVITE-z9hG4bKa"]%string /\
  (* after the repair: the same history delivers the 200 on connection 0, whether or not
     10.0.0.50:5060 accepts connections, and the per-transaction key is consumed *)
  dests (run all_fixed b2_cfg (init_state b2_cfg 0 []) b2_hist) = [ []; [DUdp (s2b "10.0.0.11") 5070]; [DConn 0] ] /\
  dests (run all_fixed b2_cfg (init_state b2_cfg 0 [(s2b "10.0.0.50", 5060)]) b2_hist) =
    [ []; [DUdp (s2b "10.0.0.11") 5070]; [DConn 0] ] /\
  keys_of (run all_fixed b2_cfg (init_state b2_cfg 0 []) (firstn 2 b2_hist)) =
    map s2b ["tcp://10.0.0.50:40001"; "tcp://10.0.0.50:5060"; "tcp://10.0.0.50:5060-INVITE-z9hG4bKa"]%string /\
  keys_of (run all_fixed b2_cfg (init_state b2_cfg 0 []) b2_hist) =
    map s2b ["tcp://10.0.0.50:40001"; "tcp://10.0.0.50:5060"]%string.
Proof. first [ exact C12.C12_legacy_refuted | intros; eapply C12.C12_legacy_refuted; eassumption ]. Qed.
Theorem C12_preserved : forall li K c ex fx cf now branch st ev st' outs,
  proxy_step fx cf now branch st ev = Ok (st', outs) ->
  ev_away li K c fx cf now branch st ev -> now / second <= ex ->
  held li K c ex st -> held li K c ex st'.
Proof. first [ exact C12.C12_preserved | intros; eapply C12.C12_preserved; eassumption ]. Qed.
Theorem C12_preserved_history : forall li K c ex fx cf h st st' outss,
  run fx cf st h = Ok (st', outss) -> hist_away li K c ex fx cf st h -> held li K c ex st -> held li K c ex st'.
Proof. first [ exact C12.C12_preserved_history | intros; eapply C12.C12_preserved_history; eassumption ]. Qed.
Theorem C12_full_addr_inj_tid : forall proto host port t t',
  full_addr proto host port t = full_addr proto host port t' -> beq proto tcp = true -> t = t'.
Proof. first [ exact C12.full_addr_inj_tid | intros; eapply C12.full_addr_inj_tid; eassumption ]. Qed.
Theorem C12_tid_inj : forall m b m' b', ~ In "-"%char m -> ~ In "-"%char m' ->
  m ++ "-"%char :: b = m' ++ "-"%char :: b' -> m = m' /\ b = b'.
Proof. first [ exact C12.tid_inj | intros; eapply C12.tid_inj; eassumption ]. Qed.
Theorem C12_keys_differ : forall host port m b m' b', ~ In "-"%char m -> ~ In "-"%char m' -> (m, b) <> (m', b') ->
  full_addr tcp host port (m ++ "-"%char :: b) <> full_addr tcp host port (m' ++ "-"%char :: b').
Proof. first [ exact C12.keys_differ | intros; eapply C12.keys_differ; eassumption ]. Qed.
Theorem C12_accept_key_differs host port t : t <> [] -> full_addr tcp host port t <> full_addr tcp host port [].
Proof. first [ exact C12.accept_key_differs | intros; eapply C12.accept_key_differs; eassumption ]. Qed.
End P_C12.

(* ------------------------------------------------------------------ C04 *)
From Model Require Import Bytes Wire Uri Hdr Message Msg StaticRoute RoundRobin Pins Proxy RunProxy SpecC14 SpecProxy SpecProxy2.
From Model.proofs Require C04.
Section P_C04.
Import C04.
Theorem C04_bind : forall e peer port from rs tcp m x g d,
  is_request m = false ->
  alookup (join_host_port peer port) (ps_backends (x_p x)) = Some g ->
  method_of m = Ok (s2b "INVITE") -> dialog_of m = Ok d ->
  let addr := join_host_port peer port in
  let life := pins_lifetime (ps_pins (x_p x)) (get_expires m 0) in
  0 <= life ->
  exists x', process_message e peer port from rs tcp m x = Ok x' /\
    pin_at d (pin_val_backend addr g) (e_now e + life) (ps_pins (x_p x')) /\
    (forall t, t < e_now e + life -> snd (pins_get t d (ps_pins (x_p x'))) = Some (pin_val_backend addr g)) /\
    static_eq (x_p x) (x_p x').
Proof. first [ exact C04.C04_bind | intros; eapply C04.C04_bind; eassumption ]. Qed.
Theorem C04_bind_subscribe : forall e peer port from rs tcp m x host hport tr g d,
  is_request m = false ->
  relay_hop m = Ok (host, hport, tr) ->
  alookup (host ++ ":"%char :: itoa hport) (ps_backends (x_p x)) = Some g ->
  method_of m = Ok (s2b "SUBSCRIBE") -> dialog_of m = Ok d ->
  let addr := host ++ ":"%char :: itoa hport in
  let life := pins_lifetime (ps_pins (x_p x)) (get_expires m 0) in
  0 <= life ->
  exists x', process_message e peer port from rs tcp m x = Ok x' /\
    pin_at d (pin_val_backend addr g) (e_now e + life) (ps_pins (x_p x')) /\
    (forall t, t < e_now e + life -> snd (pins_get t d (ps_pins (x_p x'))) = Some (pin_val_backend addr g)) /\
    static_eq (x_p x) (x_p x').
Proof. first [ exact C04.C04_bind_subscribe | intros; eapply C04.C04_bind_subscribe; eassumption ]. Qed.
Theorem C04_sticky_step : forall e m x t0 d addr g ex dst,
  fx_indialog_invite (e_fx e) = true ->
  ps_has_rr (x_p x) = true -> first_transport (e_lc e) = Some t0 ->
  is_request m = true -> dialog_of m = Ok d ->
  pin_at d (pin_val_backend addr g) ex (ps_pins (x_p x)) -> e_now e < ex ->
  alookup addr (ps_backends (x_p x)) = Some g -> gen_ok g -> addr_dest addr = Some dst ->
  let b := fwd_bytes e t0 (x_p x) m in
  let x' := fst (send_to_backend e m x) in
  (* exactly one datagram, to the pinned backend (none at all if it exceeds a datagram) *)
  x_outs x' = x_outs x ++ (if fits_datagram b then [(dst, b)] else []) /\
  (* the rotation did not move, the members did not change *)
  ps_rr (x_p x') = ps_rr (x_p x) /\ ps_backends (x_p x') = ps_backends (x_p x) /\
  (* the pin stays, except after a terminating NOTIFY which removes it after having used it *)
  ((forall c, snd (s_get_cseq m) = Ok c -> trans_key e c <> d) ->
   if notify_terminated (req_method m) m
   then alookup d (p_tab (ps_pins (x_p x'))) = None
   else pin_at d (pin_val_backend addr g) ex (ps_pins (x_p x'))).
Proof. first [ exact C04.C04_sticky_step | intros; eapply C04.C04_sticky_step; eassumption ]. Qed.
Theorem C04_sticky_step_reverse : forall e m m' x t0 d addr g ex dst cid f t f' t',
  get_raw (s2b "Call-ID") m = Ok cid -> get_raw (s2b "Call-ID") m' = Ok cid ->
  snd (s_get_from m) = Ok f -> snd (s_get_to m) = Ok t ->
  snd (s_get_from m') = Ok f' -> snd (s_get_to m') = Ok t' ->
  fromto_tag f' = fromto_tag t -> fromto_tag t' = fromto_tag f ->
  dialog_addr (fromto_addr_spec f') = dialog_addr (fromto_addr_spec t) ->
  dialog_addr (fromto_addr_spec t') = dialog_addr (fromto_addr_spec f) ->
  dialog_of m = Ok d ->
  fx_indialog_invite (e_fx e) = true -> ps_has_rr (x_p x) = true -> first_transport (e_lc e) = Some t0 ->
  is_request m' = true ->
  pin_at d (pin_val_backend addr g) ex (ps_pins (x_p x)) -> e_now e < ex ->
  alookup addr (ps_backends (x_p x)) = Some g -> gen_ok g -> addr_dest addr = Some dst ->
  let b := fwd_bytes e t0 (x_p x) m' in
  let x' := fst (send_to_backend e m' x) in
  x_outs x' = x_outs x ++ (if fits_datagram b then [(dst, b)] else []) /\
  ps_rr (x_p x') = ps_rr (x_p x) /\ ps_backends (x_p x') = ps_backends (x_p x).
Proof. first [ exact C04.C04_sticky_step_reverse | intros; eapply C04.C04_sticky_step_reverse; eassumption ]. Qed.
Theorem C04_preserved_message : forall e peer port from rs tcp m x x' d v ex,
  process_message e peer port from rs tcp m x = Ok x' ->
  msg_ok d (e_branch e) m ->
  pin_at d v ex (ps_pins (x_p x)) -> e_now e < ex ->
  (* the pinned backend object is still registered (a pin whose object has left the set is forgotten
     by the next request of its dialog, C04_stale_pin_balanced) *)
  bref_alive (x_p x) (bref_of_val v) = true ->
  pin_at d v ex (ps_pins (x_p x')) /\ mem_eq (x_p x) (x_p x').
Proof. first [ exact C04.C04_preserved_message | intros; eapply C04.C04_preserved_message; eassumption ]. Qed.
Theorem C04_unpinned_step : forall e m x t0,
  ps_has_rr (x_p x) = true -> first_transport (e_lc e) = Some t0 -> is_request m = true ->
  (forall d, dialog_of m = Ok d -> snd (pins_get (e_now e) d (ps_pins (x_p x))) = None) ->
  let b := fwd_bytes e t0 (x_p x) m in
  let x' := fst (send_to_backend e m x) in
  x_outs x' = x_outs x ++
    match snd (rr_dispatch (ps_rr (x_p x))) with
    | Some a => if fits_datagram b then to_addr_outs a b else []
    | None => []
    end /\
  ps_rr (x_p x') = fst (rr_dispatch (ps_rr (x_p x))).
Proof. first [ exact C04.C04_unpinned_step | intros; eapply C04.C04_unpinned_step; eassumption ]. Qed.
Theorem C04_stale_pin_balanced : forall e m x t0 d addr g ex,
  fx_stale_pin (e_fx e) = true ->
  ps_has_rr (x_p x) = true -> first_transport (e_lc e) = Some t0 ->
  is_request m = true -> dialog_of m = Ok d ->
  (* the dialog is bound, the binding has not expired ... *)
  pin_at d (pin_val_backend addr g) ex (ps_pins (x_p x)) -> e_now e < ex ->
  (* ... but the backend object it names is not registered any more *)
  alookup addr (ps_backends (x_p x)) <> Some g -> gen_ok g ->
  let b := fwd_bytes e t0 (x_p x) m in
  let x' := fst (send_to_backend e m x) in
  (* exactly what an unpinned request gets (C04_unpinned_step): the rotation's next backend *)
  x_outs x' = x_outs x ++
    match snd (rr_dispatch (ps_rr (x_p x))) with
    | Some a => if fits_datagram b then to_addr_outs a b else []
    | None => []
    end /\
  ps_rr (x_p x') = fst (rr_dispatch (ps_rr (x_p x))) /\
  (* and the stale binding is gone *)
  (fx_indialog_invite (e_fx e) = true ->
   (forall c, snd (s_get_cseq m) = Ok c -> trans_key e c <> d) ->
   alookup d (p_tab (ps_pins (x_p x'))) = None).
Proof. first [ exact C04.C04_stale_pin_balanced | intros; eapply C04.C04_stale_pin_balanced; eassumption ]. Qed.
Theorem C04_preserved_history : forall li d addr g ex fx c h st st' outss,
  run fx c st h = Ok (st', outss) ->
  Forall (fun '(now, br, ev) => now < ex /\ ev_ok li d addr br ev) h ->
  gen_ok g ->
  pinned li d addr g ex st -> pinned li d addr g ex st'.
Proof. first [ exact C04.C04_preserved_history | intros; eapply C04.C04_preserved_history; eassumption ]. Qed.
Theorem C04_sticky : forall c li lc t0 h1 tb bb peer port datab h2 tr br src sport datar st0 stf outss
                            st1 o1 p1 mb restb mr restr g d dst,
  nth_opt (c_listens c) li = Some lc -> first_transport lc = Some t0 ->
  run all_fixed c st0 (h1 ++ (tb, bb, EvUdp li peer port datab) :: h2 ++ [(tr, br, EvUdp li src sport datar)])
    = Ok (stf, outss) ->
  (* when the response arrives its sender is a registered backend (generation g) *)
  run all_fixed c st0 h1 = Ok (st1, o1) -> nth_p (st_proxies st1) li = Some p1 ->
  let addr := join_host_port peer port in
  alookup addr (ps_backends p1) = Some g -> gen_ok g -> ps_has_rr p1 = true -> addr_dest addr = Some dst ->
  (* the binding response: INVITE in CSeq, both tags *)
  parse_message datab = Ok (mb, restb) -> is_request mb = false ->
  method_of mb = Ok (s2b "INVITE") -> dialog_of mb = Ok d ->
  let life := pins_lifetime (ps_pins p1) (get_expires mb 0) in
  0 <= life ->
  (* in between: anything but a terminator for d, within the lifetime *)
  Forall (fun '(now, b, ev) => now < tb + life /\ ev_ok li d addr b ev) h2 ->
  (* the request: same dialog (either direction, any method), addressed to the service *)
  parse_message datar = Ok (mr, restr) -> dialog_of mr = Ok d -> tr < tb + life ->
  addressed_to_service (mk_env all_fixed c (item_rs_of true) li lc tr br) (udp_from lc) mr ->
  exists b, last outss [] = if fits_datagram b then [(dst, b)] else [].
Proof. first [ exact C04.C04_sticky | intros; eapply C04.C04_sticky; eassumption ]. Qed.
Theorem C04_unpinned_balanced : forall e peer port from rs tcp m x x' t0,
  addressed_to_service e from m -> process_message e peer port from rs tcp m x = Ok x' ->
  ps_has_rr (x_p x) = true -> first_transport (e_lc e) = Some t0 ->
  (forall d, dialog_of m = Ok d -> snd (pins_get (e_now e) d (ps_pins (x_p x))) = None) ->
  exists b,
    x_outs x' = x_outs x ++
      match snd (rr_dispatch (ps_rr (x_p x))) with
      | Some a => if fits_datagram b then to_addr_outs a b else []
      | None => []
      end /\
    ps_rr (x_p x') = fst (rr_dispatch (ps_rr (x_p x))).
Proof. first [ exact C04.C04_unpinned_balanced | intros; eapply C04.C04_unpinned_balanced; eassumption ]. Qed.
Theorem C04_sticky_pinned : forall c li lc t0 h2 tr br src sport datar st2 stf outss mr restr addr g d ex dst,
  nth_opt (c_listens c) li = Some lc -> first_transport lc = Some t0 ->
  pinned li d addr g ex st2 -> gen_ok g -> addr_dest addr = Some dst ->
  run all_fixed c st2 (h2 ++ [(tr, br, EvUdp li src sport datar)]) = Ok (stf, outss) ->
  Forall (fun '(now, b, ev) => now < ex /\ ev_ok li d addr b ev) h2 ->
  parse_message datar = Ok (mr, restr) -> dialog_of mr = Ok d -> tr < ex ->
  addressed_to_service (mk_env all_fixed c (item_rs_of true) li lc tr br) (udp_from lc) mr ->
  exists b, last outss [] = if fits_datagram b then [(dst, b)] else [].
Proof. first [ exact C04.C04_sticky_pinned | intros; eapply C04.C04_sticky_pinned; eassumption ]. Qed.
Theorem C04_legacy_refuted :
  let h := firstn 4 ex_hist in
  let st3 := match run legacy_fixes ex_cfg ex_st0 (firstn 3 ex_hist) with Ok (s, _) => s | _ => ex_st0 end in
  (* the binding is there and live when the re-INVITE arrives (t = 4 s) *)
  match nth_p (st_proxies st3) 0 with
  | Some p => snd (pins_get (sec 4) ex_d (ps_pins p)) = Some (pin_val_backend (s2b "10.0.0.12:5070") 1)
  | None => False
  end /\
  dialog_of (msg_of ex_reinvite) = Ok ex_d /\
  last (dests (run legacy_fixes ex_cfg ex_st0 h)) [] = [DUdp (s2b "10.0.0.11") 5070] /\
  last (dests (run all_fixed ex_cfg ex_st0 h)) [] = [DUdp (s2b "10.0.0.12") 5070].
Proof. first [ exact C04.C04_legacy_refuted | intros; eapply C04.C04_legacy_refuted; eassumption ]. Qed.
Theorem C04_stale_pin_legacy_refuted :
  (* when the BYE arrives (t = 5 s) the binding to the object 10.0.0.12:5070#1 is there and live, that object is not
     registered any more, 10.0.0.11:5070 is *)
  match nth_p (st_proxies (dyn_st4 stale_legacy_fixes)) 0 with
  | Some p => snd (pins_get (sec 5) ex_d (ps_pins p)) = Some (pin_val_backend (s2b "10.0.0.12:5070") 1) /\
              alookup (s2b "10.0.0.12:5070") (ps_backends p) = None /\
              alookup (s2b "10.0.0.11:5070") (ps_backends p) = Some 0%nat
  | None => False
  end /\
  dialog_of (msg_of ex_bye) = Ok ex_d /\
  (* INVITE -> .12 (the dynamic backend), 200 -> caller, BYE -> nowhere *)
  dests (run stale_legacy_fixes dyn_cfg dyn_st0 dyn_hist) =
    [ []; [DUdp (s2b "10.0.0.12") 5070]; [DUdp (s2b "10.0.0.99") 5060]; []; [] ] /\
  (* the current tree: BYE -> .11, the registered backend *)
  dests (run all_fixed dyn_cfg dyn_st0 dyn_hist) =
    [ []; [DUdp (s2b "10.0.0.12") 5070]; [DUdp (s2b "10.0.0.99") 5060]; []; [DUdp (s2b "10.0.0.11") 5070] ].
Proof. first [ exact C04.C04_stale_pin_legacy_refuted | intros; eapply C04.C04_stale_pin_legacy_refuted; eassumption ]. Qed.
Theorem C04_preserved : forall li d addr g ex fx c now branch st ev st' outs,
  proxy_step fx c now branch st ev = Ok (st', outs) ->
  ev_ok li d addr branch ev -> now < ex -> gen_ok g -> pinned li d addr g ex st -> pinned li d addr g ex st'.
Proof. first [ exact C04.C04_preserved | intros; eapply C04.C04_preserved; eassumption ]. Qed.
Theorem C04_dialog_of_symmetric : forall m m' cid f t f' t',
  get_raw (s2b "Call-ID") m = Ok cid -> get_raw (s2b "Call-ID") m' = Ok cid ->
  snd (s_get_from m) = Ok f -> snd (s_get_to m) = Ok t ->
  snd (s_get_from m') = Ok f' -> snd (s_get_to m') = Ok t' ->
  fromto_tag f' = fromto_tag t -> fromto_tag t' = fromto_tag f ->
  dialog_addr (fromto_addr_spec f') = dialog_addr (fromto_addr_spec t) ->
  dialog_addr (fromto_addr_spec t') = dialog_addr (fromto_addr_spec f) ->
  dialog_of m' = dialog_of m.
Proof. first [ exact C04.dialog_of_symmetric | intros; eapply C04.dialog_of_symmetric; eassumption ]. Qed.
Theorem C04_bref_round_trip : forall b, match b with BObj _ g => gen_ok g | BRR => True end ->
  bref_of_val (bref_val b) = b.
Proof. first [ exact C04.bref_round_trip | intros; eapply C04.bref_round_trip; eassumption ]. Qed.
Theorem C04_key_neq_dialog : forall meth branch d,
  ~ In "-"%char meth -> has_prefix cookie branch = true ->
  match index_byte "-"%char d with
  | Some i => has_prefix cookie (skipn (S i) d) = false
  | None => True
  end ->
  meth ++ "-"%char :: branch <> d.
Proof. first [ exact C04.key_neq_dialog | intros; eapply C04.key_neq_dialog; eassumption ]. Qed.
End P_C04.

(* ------------------------------------------------------------------ TB *)
From Model Require Import Bytes Wire Uri Hdr Message Msg StaticRoute RoundRobin Pins Proxy RunProxy SpecC14 SpecProxy SpecProxy2 ProxyTB.
From Model.proofs Require C04 C06 TB.
Section P_TB.
Import C04 C06 TB.
Theorem TB_conservative_entry : forall tb fx c now br st cache ev,
  match ev_li st ev with Some li => is_tb tb li = false | None => True end ->
  proxy_step_tb tb fx c now br st cache ev = lift_step (proxy_step fx c now br st ev) cache.
Proof. first [ exact TB.TB_conservative_entry | intros; eapply TB.TB_conservative_entry; eassumption ]. Qed.
Theorem TB_conservative : forall tb fx c now br st cache ev,
  (forall li, is_tb tb li = false) ->
  proxy_step_tb tb fx c now br st cache ev = lift_step (proxy_step fx c now br st ev) cache.
Proof. first [ exact TB.TB_conservative | intros; eapply TB.TB_conservative; eassumption ]. Qed.
Theorem TB_conservative_history : forall tb fx c, (forall li, is_tb tb li = false) ->
  forall h st cache, run_tb tb fx c st cache h = lift_run (C04.run fx c st h) cache.
Proof. first [ exact TB.TB_conservative_history | intros; eapply TB.TB_conservative_history; eassumption ]. Qed.
Theorem TB_copy_faithful : forall e from m x cache,
  reaches_backend e from m = false ->
  handle_message_tb e from m x cache = lift_hm (handle_message e from m x) cache.
Proof. first [ exact TB.TB_copy_faithful | intros; eapply TB.TB_copy_faithful; eassumption ]. Qed.
Theorem TB_copy_faithful_backend : forall e from m x cache,
  reaches_backend e from m = true ->
  let m1 := fst (next_request_hop (c_keep_next_hop (e_cfg e)) (route_table_of (e_cfg e)) m) in
  handle_message_tb e from m x cache = send_to_backend_tb e m1 x cache /\
  handle_message e from m x = send_to_backend e m1 x.
Proof. first [ exact TB.TB_copy_faithful_backend | intros; eapply TB.TB_copy_faithful_backend; eassumption ]. Qed.
Theorem TB_copy_faithful_response : forall e from m x cache,
  is_request m = false ->
  handle_message_tb e from m x cache = (let '(x', m') := handle_message e from m x in (x', m', cache)).
Proof. first [ exact TB.TB_copy_faithful_response | intros; eapply TB.TB_copy_faithful_response; eassumption ]. Qed.
Theorem TB_copy_faithful_hop : forall e from m x cache v,
  snd (next_request_hop (c_keep_next_hop (e_cfg e)) (route_table_of (e_cfg e)) m) = Ok v ->
  handle_message_tb e from m x cache = (let '(x', m') := handle_message e from m x in (x', m', cache)).
Proof. first [ exact TB.TB_copy_faithful_hop | intros; eapply TB.TB_copy_faithful_hop; eassumption ]. Qed.
Theorem TB_copy_faithful_not_mine : forall e from m x cache,
  is_my_message (new_my_name (c_name (e_cfg e))) from
    (fst (next_request_hop (c_keep_next_hop (e_cfg e)) (route_table_of (e_cfg e)) m)) = false ->
  handle_message_tb e from m x cache = (let '(x', m') := handle_message e from m x in (x', m', cache)).
Proof. first [ exact TB.TB_copy_faithful_not_mine | intros; eapply TB.TB_copy_faithful_not_mine; eassumption ]. Qed.
Theorem TB_copy_faithful_process : forall e peer peer_port from rs tcp m0 x cache,
  match pm_reach e peer peer_port from rs tcp m0 x with
  | Ok (m5, _) => reaches_backend e from m5 = false
  | _ => True
  end ->
  process_message_tb e peer peer_port from rs tcp m0 x cache =
  match process_message e peer peer_port from rs tcp m0 x with
  | Ok x' => Ok (x', cache) | Err => Err | Panic => Panic end.
Proof. first [ exact TB.TB_copy_faithful_process | intros; eapply TB.TB_copy_faithful_process; eassumption ]. Qed.
Theorem TB_copy_faithful_process_response : forall e peer peer_port from rs tcp m x cache,
  is_request m = false ->
  process_message_tb e peer peer_port from rs tcp m x cache =
  match process_message e peer peer_port from rs tcp m x with
  | Ok x' => Ok (x', cache) | Err => Err | Panic => Panic end.
Proof. first [ exact TB.TB_copy_faithful_process_response | intros; eapply TB.TB_copy_faithful_process_response; eassumption ]. Qed.
Theorem TB_send_reuse : forall e a g b x cache pos c,
  last_index_byte ":"%char a = Some pos ->
  alookup (tb_key (e_li e) a g) cache = Some c -> conn_open (x_conns x) c = true ->
  tcp_backend_send e a g b x cache = (x, cache, [(DConn c, b)], true).
Proof. first [ exact TB.TB_send_reuse | intros; eapply TB.TB_send_reuse; eassumption ]. Qed.
Theorem TB_send_dial : forall e a g b x cache pos,
  last_index_byte ":"%char a = Some pos ->
  let ip := firstn pos a in
  let port := atoi_val (skipn (S pos) a) in
  let key := tb_key (e_li e) a g in
  let c := w_next_conn (x_world x) in
  (* no cached connection, or the cached one is closed *)
  (alookup key cache = None \/ exists c0, alookup key cache = Some c0 /\ conn_open (x_conns x) c0 = false) ->
  (* the backend accepts connections *)
  existsb (fun '(h, pt) => beq h ip && Z.eqb pt port) (w_tcp_listeners (x_world x)) = true ->
  exists x' cache',
    tcp_backend_send e a g b x cache = (x', cache', [(DDial ip port c, []); (DConn c, b)], true) /\
    x_conns x' = x_conns x ++ [{| cn_id := c; cn_li := e_li e; cn_open := true; cn_peer := ip; cn_peer_port := port;
                                  cn_from := tb_local; cn_received_support := e_item_rs e |}] /\
    conn_open (x_conns x') c = true /\
    alookup key cache' = Some c /\
    cache' = aset key c (tb_forget key cache) /\
    w_next_conn (x_world x') = S c /\ w_tcp_listeners (x_world x') = w_tcp_listeners (x_world x) /\
    x_p x' = x_p x /\ x_learned x' = x_learned x /\ x_outs x' = x_outs x.
Proof. first [ exact TB.TB_send_dial | intros; eapply TB.TB_send_dial; eassumption ]. Qed.
Theorem TB_send_refused : forall e a g b x cache pos,
  last_index_byte ":"%char a = Some pos ->
  let ip := firstn pos a in
  let port := atoi_val (skipn (S pos) a) in
  let key := tb_key (e_li e) a g in
  (alookup key cache = None \/ exists c0, alookup key cache = Some c0 /\ conn_open (x_conns x) c0 = false) ->
  existsb (fun '(h, pt) => beq h ip && Z.eqb pt port) (w_tcp_listeners (x_world x)) = false ->
  exists cache',
    (* no output, no new connection, nothing else changed *)
    tcp_backend_send e a g b x cache = (x, cache', [], false) /\
    (* the stale entry, if any, is gone; every other entry is as before *)
    alookup key cache' = None /\ cache' = tb_forget key cache /\
    (forall k, k <> key -> alookup k cache' = alookup k cache).
Proof. first [ exact TB.TB_send_refused | intros; eapply TB.TB_send_refused; eassumption ]. Qed.
Theorem TB_send_malformed : forall e a g b x cache,
  last_index_byte ":"%char a = None -> tcp_backend_send e a g b x cache = (x, cache, [], false).
Proof. first [ exact TB.TB_send_malformed | intros; eapply TB.TB_send_malformed; eassumption ]. Qed.
Theorem TB_send_one_message : forall e a g b x cache x' cache' outs ok,
  tcp_backend_send e a g b x cache = (x', cache', outs, ok) ->
  C06.one_msg b outs /\
  (ok = true -> C06.msg_count outs = 1%nat) /\ (ok = false -> outs = []) /\
  x_p x' = x_p x /\ x_learned x' = x_learned x /\ x_outs x' = x_outs x /\
  (exists extra, x_conns x' = x_conns x ++ extra) /\
  w_tcp_listeners (x_world x') = w_tcp_listeners (x_world x).
Proof. first [ exact TB.TB_send_one_message | intros; eapply TB.TB_send_one_message; eassumption ]. Qed.
Theorem TB_payload_agrees : forall e m x cache,
  let xu := fst (send_to_backend e m x) in
  let mu := snd (send_to_backend e m x) in
  let xt := fst (fst (send_to_backend_tb e m x cache)) in
  let mt := snd (fst (send_to_backend_tb e m x cache)) in
  exists extra_u extra_t,
    x_outs xu = x_outs x ++ extra_u /\ x_outs xt = x_outs x ++ extra_t /\
    (forall t0, first_transport (e_lc e) = Some t0 ->
       let m2 := px_add_record_route (pa_must_rr (wire_proxy (e_lc e))) t0
                   (px_add_via e t0 (fst (find_backend_by_dialog e (x_p x) m))) in
       C06.one_msg (write_message m2) extra_u /\ C06.one_msg (write_message m2) extra_t) /\
    (first_transport (e_lc e) = None -> extra_u = [] /\ extra_t = []) /\
    (stb_ok e m x = false -> extra_u = []) /\
    (stb_ok_tb e m x cache = true -> C06.msg_count extra_t = 1%nat) /\
    (stb_ok_tb e m x cache = false -> extra_t = []) /\
    (stb_ok e m x = stb_ok_tb e m x cache -> mt = mu /\ ps_pins (x_p xt) = ps_pins (x_p xu)) /\
    ps_rr (x_p xt) = ps_rr (x_p xu) /\ ps_backends (x_p xt) = ps_backends (x_p xu) /\
    ps_has_rr (x_p xt) = ps_has_rr (x_p xu) /\ x_learned xt = x_learned xu.
Proof. first [ exact TB.TB_payload_agrees | intros; eapply TB.TB_payload_agrees; eassumption ]. Qed.
Theorem TB_rotation_agrees : forall e m x cache,
  ps_rr (x_p (fst (fst (send_to_backend_tb e m x cache)))) = ps_rr (x_p (fst (send_to_backend e m x))) /\
  ps_backends (x_p (fst (fst (send_to_backend_tb e m x cache)))) = ps_backends (x_p (fst (send_to_backend e m x))).
Proof. first [ exact TB.TB_rotation_agrees | intros; eapply TB.TB_rotation_agrees; eassumption ]. Qed.
Theorem TB_at_most_one_message : forall e peer peer_port from rs tcp m x cache x' cache',
  process_message_tb e peer peer_port from rs tcp m x cache = Ok (x', cache') ->
  exists extra, x_outs x' = x_outs x ++ extra /\ (C06.msg_count extra <= 1)%nat.
Proof. first [ exact TB.TB_at_most_one_message | intros; eapply TB.TB_at_most_one_message; eassumption ]. Qed.
Theorem TB_at_most_one : forall tb fx c now br st cache li src sport data st' cache' outs,
  proxy_step_tb tb fx c now br st cache (EvUdp li src sport data) = Ok (st', cache', outs) ->
  (C06.msg_count outs <= 1)%nat.
Proof. first [ exact TB.TB_at_most_one | intros; eapply TB.TB_at_most_one; eassumption ]. Qed.
Theorem TB_at_most_one_tcp : forall tb fx c now br st cache cid data st' cache' outs,
  proxy_step_tb tb fx c now br st cache (EvTcpData cid data) = Ok (st', cache', outs) ->
  exists chunks, outs = List.concat chunks /\
                 (List.length chunks <= List.length (parse_stream (S (List.length data)) data))%nat /\
                 Forall (fun ch => (C06.msg_count ch <= 1)%nat) chunks.
Proof. first [ exact TB.TB_at_most_one_tcp | intros; eapply TB.TB_at_most_one_tcp; eassumption ]. Qed.
Theorem TB_sticky_step : forall e m x cache t0 d addr g ex pos,
  fx_indialog_invite (e_fx e) = true ->
  ps_has_rr (x_p x) = true -> first_transport (e_lc e) = Some t0 ->
  is_request m = true -> C04.dialog_of m = Ok d ->
  C04.pin_at d (pin_val_backend addr g) ex (ps_pins (x_p x)) -> e_now e < ex ->
  alookup addr (ps_backends (x_p x)) = Some g -> C04.gen_ok g ->
  last_index_byte ":"%char addr = Some pos ->
  let ip := firstn pos addr in
  let port := atoi_val (skipn (S pos) addr) in
  let key := tb_key (e_li e) addr g in
  let n := w_next_conn (x_world x) in
  let b := C04.fwd_bytes e t0 (x_p x) m in
  let x' := fst (fst (send_to_backend_tb e m x cache)) in
  let cache' := snd (send_to_backend_tb e m x cache) in
  (* where the bytes go *)
  match tb_usable x key cache with
  | Some c => x_outs x' = x_outs x ++ [(DConn c, b)] /\ x_conns x' = x_conns x /\ x_world x' = x_world x /\ cache' = cache
  | None =>
      if tb_listens x ip port
      then x_outs x' = x_outs x ++ [(DDial ip port n, []); (DConn n, b)] /\
           x_conns x' = x_conns x ++ [{| cn_id := n; cn_li := e_li e; cn_open := true; cn_peer := ip; cn_peer_port := port;
                                         cn_from := tb_local; cn_received_support := e_item_rs e |}] /\
           w_next_conn (x_world x') = S n /\ alookup key cache' = Some n
      else x_outs x' = x_outs x /\ x_conns x' = x_conns x /\ x_world x' = x_world x /\ alookup key cache' = None
  end /\
  (* the rotation did not move, the members did not change *)
  ps_rr (x_p x') = ps_rr (x_p x) /\ ps_backends (x_p x') = ps_backends (x_p x) /\ x_learned x' = x_learned x /\
  (* the pin stays, except after a terminating NOTIFY which removes it after having used it *)
  ((forall c, snd (s_get_cseq m) = Ok c -> C04.trans_key e c <> d) ->
   if C04.notify_terminated (C04.req_method m) m
   then alookup d (p_tab (ps_pins (x_p x'))) = None
   else C04.pin_at d (pin_val_backend addr g) ex (ps_pins (x_p x'))).
Proof. first [ exact TB.TB_sticky_step | intros; eapply TB.TB_sticky_step; eassumption ]. Qed.
Theorem TB_sticky_same_message : forall e m x cache t0 d addr g ex pos,
  fx_indialog_invite (e_fx e) = true ->
  ps_has_rr (x_p x) = true -> first_transport (e_lc e) = Some t0 ->
  is_request m = true -> C04.dialog_of m = Ok d ->
  C04.pin_at d (pin_val_backend addr g) ex (ps_pins (x_p x)) -> e_now e < ex ->
  alookup addr (ps_backends (x_p x)) = Some g -> C04.gen_ok g ->
  last_index_byte ":"%char addr = Some pos ->
  fits_datagram (C04.fwd_bytes e t0 (x_p x) m) = true ->
  (tb_usable x (tb_key (e_li e) addr g) cache <> None \/
   tb_listens x (firstn pos addr) (atoi_val (skipn (S pos) addr)) = true) ->
  snd (fst (send_to_backend_tb e m x cache)) = snd (send_to_backend e m x) /\
  ps_pins (x_p (fst (fst (send_to_backend_tb e m x cache)))) = ps_pins (x_p (fst (send_to_backend e m x))).
Proof. first [ exact TB.TB_sticky_same_message | intros; eapply TB.TB_sticky_same_message; eassumption ]. Qed.
Theorem TB_unpinned_step : forall e m x cache t0,
  ps_has_rr (x_p x) = true -> first_transport (e_lc e) = Some t0 -> is_request m = true ->
  (forall d, C04.dialog_of m = Ok d -> snd (pins_get (e_now e) d (ps_pins (x_p x))) = None) ->
  let b := C04.fwd_bytes e t0 (x_p x) m in
  let x' := fst (fst (send_to_backend_tb e m x cache)) in
  let cache' := snd (send_to_backend_tb e m x cache) in
  ps_rr (x_p x') = fst (rr_dispatch (ps_rr (x_p x))) /\
  ps_rr (x_p x') = ps_rr (x_p (fst (send_to_backend e m x))) /\
  ps_backends (x_p x') = ps_backends (x_p x) /\
  match snd (rr_dispatch (ps_rr (x_p x))) with
  | Some a =>
      match alookup a (ps_backends (x_p x)) with
      | Some g =>
          let '(xs, cs, outs, ok) := tcp_backend_send e a g b x cache in
          x_outs x' = x_outs x ++ outs /\ x_conns x' = x_conns xs /\ x_world x' = x_world xs /\ cache' = cs
      | None => x_outs x' = x_outs x /\ x_conns x' = x_conns x /\ x_world x' = x_world x /\ cache' = cache
      end
  | None => x_outs x' = x_outs x /\ x_conns x' = x_conns x /\ x_world x' = x_world x /\ cache' = cache
  end.
Proof. first [ exact TB.TB_unpinned_step | intros; eapply TB.TB_unpinned_step; eassumption ]. Qed.
Theorem TB_remove_closes : forall tb fx c now br st cache li addr p g cid,
  is_tb tb li = true -> nth_p (st_proxies st) li = Some p ->
  mem_bytes addr (rr_map (ps_rr p)) = true -> alookup addr (ps_backends p) = Some g ->
  alookup (tb_key li addr g) cache = Some cid ->
  exists st' stp p',
    proxy_step_tb tb fx c now br st cache (EvBackendRemove li addr) = Ok (st', cache, []) /\
    proxy_step fx c now br st (EvBackendRemove li addr) = Ok (stp, []) /\
    st_conns st' = close_conn cid (st_conns st) /\ st_conns stp = st_conns st /\
    (NoDup (map cn_id (st_conns st)) -> conn_open (st_conns st') cid = false) /\
    (forall c', c' <> cid -> conn_open (st_conns st') c' = conn_open (st_conns st) c') /\
    st_proxies st' = st_proxies stp /\ st_learned st' = st_learned stp /\ st_world st' = st_world stp /\
    nth_p (st_proxies st') li = Some p' /\
    ps_backends p' = adel addr (ps_backends p) /\ alookup addr (ps_backends p') = None /\
    ps_rr p' = fst (rr_remove addr (ps_rr p)) /\ mem_bytes addr (rr_map (ps_rr p')) = false.
Proof. first [ exact TB.TB_remove_closes | intros; eapply TB.TB_remove_closes; eassumption ]. Qed.
Theorem TB_remove_no_cached : forall tb fx c now br st cache li addr,
  (forall p g, nth_p (st_proxies st) li = Some p -> mem_bytes addr (rr_map (ps_rr p)) = true ->
               alookup addr (ps_backends p) = Some g -> alookup (tb_key li addr g) cache = None) ->
  proxy_step_tb tb fx c now br st cache (EvBackendRemove li addr) =
  lift_step (proxy_step fx c now br st (EvBackendRemove li addr)) cache.
Proof. first [ exact TB.TB_remove_no_cached | intros; eapply TB.TB_remove_no_cached; eassumption ]. Qed.
Theorem TB_cache_ok_step : forall tb fx c now br st cache ev st' cache' outs,
  cache_ok (st_conns st) cache ->
  proxy_step_tb tb fx c now br st cache ev = Ok (st', cache', outs) -> cache_ok (st_conns st') cache'.
Proof. first [ exact TB.TB_cache_ok_step | intros; eapply TB.TB_cache_ok_step; eassumption ]. Qed.
Theorem TB_cache_ok_history : forall tb fx c h st cache st' cache' outss,
  cache_ok (st_conns st) cache -> run_tb tb fx c st cache h = Ok (st', cache', outss) ->
  cache_ok (st_conns st') cache'.
Proof. first [ exact TB.TB_cache_ok_history | intros; eapply TB.TB_cache_ok_history; eassumption ]. Qed.
Theorem TB_cached_peer : forall tb fx c h st0 st cache outss,
  run_tb tb fx c st0 [] h = Ok (st, cache, outss) ->
  forall li a g cid pos,
    alookup (tb_key li a g) cache = Some cid -> last_index_byte ":"%char a = Some pos ->
    exists cn, In cn (st_conns st) /\ cn_id cn = cid /\ cn_li cn = li /\
               cn_peer cn = firstn pos a /\ cn_peer_port cn = atoi_val (skipn (S pos) a).
Proof. first [ exact TB.TB_cached_peer | intros; eapply TB.TB_cached_peer; eassumption ]. Qed.
Theorem TB_cached_has_port : forall tb fx c h st0 st cache outss li a g cid,
  run_tb tb fx c st0 [] h = Ok (st, cache, outss) -> alookup (tb_key li a g) cache = Some cid ->
  last_index_byte ":"%char a <> None.
Proof. first [ exact TB.TB_cached_has_port | intros; eapply TB.TB_cached_has_port; eassumption ]. Qed.
End P_TB.

(* ------------------------------------------------------------------ C02 *)
From Model Require Import Bytes Wire Uri Hdr Message Msg StaticRoute RoundRobin Pins Proxy RunProxy SpecC14 SpecProxy SpecProxy2.
From Model.proofs Require C06 C13_bridge C07_bridge C07 C02 C02_bridge C02_bridge_tcp.
Section P_C02.
Import C06 C13_bridge C07_bridge C07 C02 C02_bridge C02_bridge_tcp.
Theorem C02_judge_bridge_tcp_core_msg :
  forall (pc : proxy_case) (stj : jstate) (e : env) (cid : nat) (peer : bytes) (pport : Z) (from : stransport)
         (rs : bool) (tcp : option nat) (data : bytes) (jin : jmsg) (m : message) (rest : bytes)
         (x x' : ctx) (pre : list output) (vis : output -> bool) (closed : list nat),
  j_read data = Some jin -> parse_message data = Ok (m, rest) ->
  via_domain m ->
  process_message e peer pport from rs tcp m x = Ok x' ->
  x_outs x' = x_outs x ++ pre ->
  (forall v1 v2 vrest m4 pins',
     is_response m = true ->
     flat_view (via_hdrs m) = v1 :: v2 :: vrest ->
     x_outs x ++ pre = x_outs (fst (send_message e (hop_host v2) (hop_port v2) (v_transport v2) m4
                                      (pins_ctx x pins'))) ->
     write_message (sent_msg m4) = write_message (relayed_response e peer pport from x m) ->
     dest_ok pc stj (j_dest (pc_cfg pc) (v_transport v2) (hop_host v2) (hop_port v2))
             (msgs_of (map B13.labelled (filter vis pre))) = true) ->
  judge_C02_event pc stj (EvTcpData cid data) (map B13.labelled (filter vis pre)) closed = O.
Proof. first [ exact C02_bridge_tcp.C02_judge_bridge_tcp_core_msg | intros; eapply C02_bridge_tcp.C02_judge_bridge_tcp_core_msg; eassumption ]. Qed.
Theorem C02_judge_bridge_tcp_core_step :
  forall (pc : proxy_case) (stj : jstate) (fx : fixes) (now : Z) (br : bytes) (st : state) (cid : nat)
         (lc : listen_cfg) (cn : conn) (p : pstate) (data : bytes) (jin : jmsg) (m : message) (rest : bytes)
         (st' : state) (outs : list output) (vis : output -> bool) (closed : list nat),
  find (fun y => Nat.eqb (cn_id y) cid) (st_conns st) = Some cn -> cn_open cn = true ->
  nth_opt (c_listens (pc_cfg pc)) (cn_li cn) = Some lc -> nth_p (st_proxies st) (cn_li cn) = Some p ->
  j_read data = Some jin -> parse_message data = Ok (m, rest) -> trim_left rest = [] ->
  via_domain m ->
  proxy_step fx (pc_cfg pc) now br st (EvTcpData cid data) = Ok (st', outs) ->
  (forall v1 v2 vrest m4 pins',
     is_response m = true ->
     flat_view (via_hdrs m) = v1 :: v2 :: vrest ->
     outs = x_outs (fst (send_message (step_env fx (pc_cfg pc) (cn_li cn) lc now br) (hop_host v2) (hop_port v2)
                           (v_transport v2) m4 (pin_ctx st p pins'))) ->
     write_message (sent_msg m4) = relayed_bytes_tcp fx (pc_cfg pc) now br st lc p cn m ->
     dest_ok pc stj (j_dest (pc_cfg pc) (v_transport v2) (hop_host v2) (hop_port v2))
             (msgs_of (map B13.labelled (filter vis outs))) = true) ->
  judge_C02_event pc stj (EvTcpData cid data) (map B13.labelled (filter vis outs)) closed = O.
Proof. first [ exact C02_bridge_tcp.C02_judge_bridge_tcp_core_step | intros; eapply C02_bridge_tcp.C02_judge_bridge_tcp_core_step; eassumption ]. Qed.
Theorem C02_judge_bridge_tcp_step_udp :
  forall (pc : proxy_case) (stj : jstate) (fx : fixes) (now : Z) (br : bytes) (st : state) (cid : nat)
         (lc : listen_cfg) (cn : conn) (p : pstate) (data : bytes) (jin : jmsg) (m : message) (rest : bytes)
         (st' : state) (outs : list output) (closed : list nat)
         (v1 v2 : via_param) (vrest : list via_param) (ip : bytes),
  find (fun y => Nat.eqb (cn_id y) cid) (st_conns st) = Some cn -> cn_open cn = true ->
  nth_opt (c_listens (pc_cfg pc)) (cn_li cn) = Some lc -> nth_p (st_proxies st) (cn_li cn) = Some p ->
  j_read data = Some jin -> parse_message data = Ok (m, rest) -> trim_left rest = [] ->
  via_domain m ->
  flat_view (via_hdrs m) = v1 :: v2 :: vrest ->
  to_lower (v_transport v2) = s2b "udp" ->
  get_ip (pc_cfg pc) (hop_host v2) = Some ip -> resolvable ip (hop_port v2) = true ->
  udp_slot_ok ip (hop_port v2) p ->
  fits_datagram (relayed_bytes_tcp fx (pc_cfg pc) now br st lc p cn m) = true ->
  proxy_step fx (pc_cfg pc) now br st (EvTcpData cid data) = Ok (st', outs) ->
  judge_C02_event pc stj (EvTcpData cid data)
    (map B13.labelled (filter (visible (pc_udp_endpoints pc)) outs)) closed = O.
Proof. first [ exact C02_bridge_tcp.C02_judge_bridge_tcp_step_udp | intros; eapply C02_bridge_tcp.C02_judge_bridge_tcp_step_udp; eassumption ]. Qed.
Theorem C02_judge_bridge_tcp_step_drop :
  forall (pc : proxy_case) (stj : jstate) (fx : fixes) (now : Z) (br : bytes) (st : state) (cid : nat)
         (lc : listen_cfg) (cn : conn) (p : pstate) (data : bytes) (jin : jmsg) (m : message) (rest : bytes)
         (st' : state) (outs : list output) (vis : output -> bool) (closed : list nat),
  find (fun y => Nat.eqb (cn_id y) cid) (st_conns st) = Some cn -> cn_open cn = true ->
  nth_opt (c_listens (pc_cfg pc)) (cn_li cn) = Some lc -> nth_p (st_proxies st) (cn_li cn) = Some p ->
  j_read data = Some jin -> parse_message data = Ok (m, rest) -> trim_left rest = [] ->
  via_domain m ->
  (List.length (flat_view (via_hdrs m)) <= 1)%nat ->
  proxy_step fx (pc_cfg pc) now br st (EvTcpData cid data) = Ok (st', outs) ->
  judge_C02_event pc stj (EvTcpData cid data) (map B13.labelled (filter vis outs)) closed = O.
Proof. first [ exact C02_bridge_tcp.C02_judge_bridge_tcp_step_drop | intros; eapply C02_bridge_tcp.C02_judge_bridge_tcp_step_drop; eassumption ]. Qed.
Theorem C02_judge_bridge_tcp_step_tcp_sent :
  forall (pc : proxy_case) (stj : jstate) (fx : fixes) (now : Z) (br : bytes) (st : state) (cid : nat)
         (lc : listen_cfg) (cn : conn) (p : pstate) (data : bytes) (jin : jmsg) (m : message) (rest : bytes)
         (st' : state) (outs : list output) (closed : list nat)
         (v1 v2 : via_param) (vrest : list via_param) (ip : bytes),
  find (fun y => Nat.eqb (cn_id y) cid) (st_conns st) = Some cn -> cn_open cn = true ->
  nth_opt (c_listens (pc_cfg pc)) (cn_li cn) = Some lc -> nth_p (st_proxies st) (cn_li cn) = Some p ->
  j_read data = Some jin -> parse_message data = Ok (m, rest) -> trim_left rest = [] ->
  via_domain m ->
  flat_view (via_hdrs m) = v1 :: v2 :: vrest ->
  to_lower (v_transport v2) = s2b "tcp" ->
  get_ip (pc_cfg pc) (hop_host v2) = Some ip ->
  fx_udp_via_listener fx = true -> tcp_slot_ok p ->
  proxy_step fx (pc_cfg pc) now br st (EvTcpData cid data) = Ok (st', outs) ->
  filter C06.is_msg outs <> [] ->
  judge_C02_event pc stj (EvTcpData cid data)
    (map B13.labelled (filter (visible (pc_udp_endpoints pc)) outs)) closed = O.
Proof. first [ exact C02_bridge_tcp.C02_judge_bridge_tcp_step_tcp_sent | intros; eapply C02_bridge_tcp.C02_judge_bridge_tcp_step_tcp_sent; eassumption ]. Qed.
Theorem C02_judge_bridge_tcp_step_tcp_fresh :
  forall (pc : proxy_case) (stj : jstate) (fx : fixes) (now : Z) (br : bytes) (st : state) (cid : nat)
         (lc : listen_cfg) (cn : conn) (p : pstate) (data : bytes) (jin : jmsg) (m : message) (rest : bytes)
         (st' : state) (outs : list output) (closed : list nat)
         (v1 v2 : via_param) (vrest : list via_param) (ip : bytes),
  tcp_agree pc stj st ip (hop_port v2) ->
  find (fun y => Nat.eqb (cn_id y) cid) (st_conns st) = Some cn -> cn_open cn = true ->
  nth_opt (c_listens (pc_cfg pc)) (cn_li cn) = Some lc -> nth_p (st_proxies st) (cn_li cn) = Some p ->
  j_read data = Some jin -> parse_message data = Ok (m, rest) -> trim_left rest = [] ->
  via_domain m ->
  flat_view (via_hdrs m) = v1 :: v2 :: vrest ->
  to_lower (v_transport v2) = s2b "tcp" ->
  get_ip (pc_cfg pc) (hop_host v2) = Some ip ->
  fx_udp_via_listener fx = true -> tcp_fresh ip (hop_port v2) p ->
  proxy_step fx (pc_cfg pc) now br st (EvTcpData cid data) = Ok (st', outs) ->
  judge_C02_event pc stj (EvTcpData cid data)
    (map B13.labelled (filter (visible (pc_udp_endpoints pc)) outs)) closed = O.
Proof. first [ exact C02_bridge_tcp.C02_judge_bridge_tcp_step_tcp_fresh | intros; eapply C02_bridge_tcp.C02_judge_bridge_tcp_step_tcp_fresh; eassumption ]. Qed.
Theorem C02_judge_bridge_core :
  forall (pc : proxy_case) (stj : jstate) (fx : fixes) (now : Z) (br : bytes) (st : state) (li : nat)
         (lc : listen_cfg) (src : bytes) (sport : Z) (data : bytes) (jin : jmsg) (m : message) (rest : bytes)
         (p : pstate) (st' : state) (outs : list output) (vis : output -> bool) (closed : list nat),
  nth_opt (c_listens (pc_cfg pc)) li = Some lc -> nth_p (st_proxies st) li = Some p ->
  j_read data = Some jin -> parse_message data = Ok (m, rest) ->
  via_domain m ->
  proxy_step fx (pc_cfg pc) now br st (EvUdp li src sport data) = Ok (st', outs) ->
  (forall v1 v2 vrest m4 pins',
     is_response m = true ->
     flat_view (via_hdrs m) = v1 :: v2 :: vrest ->
     outs = x_outs (fst (send_message (step_env fx (pc_cfg pc) li lc now br) (hop_host v2) (hop_port v2)
                           (v_transport v2) m4 (pin_ctx st p pins'))) ->
     write_message (sent_msg m4) = relayed_bytes fx (pc_cfg pc) now br st li lc p src sport m ->
     dest_ok pc stj (j_dest (pc_cfg pc) (v_transport v2) (hop_host v2) (hop_port v2))
             (msgs_of (map B13.labelled (filter vis outs))) = true) ->
  judge_C02_event pc stj (EvUdp li src sport data) (map B13.labelled (filter vis outs)) closed = O.
Proof. first [ exact C02_bridge.C02_judge_bridge_core | intros; eapply C02_bridge.C02_judge_bridge_core; eassumption ]. Qed.
Theorem C02_judge_bridge_step_udp :
  forall (pc : proxy_case) (stj : jstate) (fx : fixes) (now : Z) (br : bytes) (st : state) (li : nat)
         (lc : listen_cfg) (src : bytes) (sport : Z) (data : bytes) (jin : jmsg) (m : message) (rest : bytes)
         (p : pstate) (st' : state) (outs : list output) (closed : list nat)
         (v1 v2 : via_param) (vrest : list via_param) (ip : bytes),
  nth_opt (c_listens (pc_cfg pc)) li = Some lc -> nth_p (st_proxies st) li = Some p ->
  j_read data = Some jin -> parse_message data = Ok (m, rest) ->
  via_domain m ->
  flat_view (via_hdrs m) = v1 :: v2 :: vrest ->
  to_lower (v_transport v2) = s2b "udp" ->
  get_ip (pc_cfg pc) (hop_host v2) = Some ip -> resolvable ip (hop_port v2) = true ->
  udp_slot_ok ip (hop_port v2) p ->
  fits_datagram (relayed_bytes fx (pc_cfg pc) now br st li lc p src sport m) = true ->
  proxy_step fx (pc_cfg pc) now br st (EvUdp li src sport data) = Ok (st', outs) ->
  judge_C02_event pc stj (EvUdp li src sport data)
    (map B13.labelled (filter (visible (pc_udp_endpoints pc)) outs)) closed = O.
Proof. first [ exact C02_bridge.C02_judge_bridge_step_udp | intros; eapply C02_bridge.C02_judge_bridge_step_udp; eassumption ]. Qed.
Theorem C02_judge_bridge_step_drop :
  forall (pc : proxy_case) (stj : jstate) (fx : fixes) (now : Z) (br : bytes) (st : state) (li : nat)
         (lc : listen_cfg) (src : bytes) (sport : Z) (data : bytes) (jin : jmsg) (m : message) (rest : bytes)
         (p : pstate) (st' : state) (outs : list output) (vis : output -> bool) (closed : list nat),
  nth_opt (c_listens (pc_cfg pc)) li = Some lc -> nth_p (st_proxies st) li = Some p ->
  j_read data = Some jin -> parse_message data = Ok (m, rest) ->
  via_domain m ->
  (List.length (flat_view (via_hdrs m)) <= 1)%nat ->
  proxy_step fx (pc_cfg pc) now br st (EvUdp li src sport data) = Ok (st', outs) ->
  judge_C02_event pc stj (EvUdp li src sport data) (map B13.labelled (filter vis outs)) closed = O.
Proof. first [ exact C02_bridge.C02_judge_bridge_step_drop | intros; eapply C02_bridge.C02_judge_bridge_step_drop; eassumption ]. Qed.
Theorem C02_judge_bridge_step_unsupported :
  forall (pc : proxy_case) (stj : jstate) (fx : fixes) (now : Z) (br : bytes) (st : state) (li : nat)
         (lc : listen_cfg) (src : bytes) (sport : Z) (data : bytes) (jin : jmsg) (m : message) (rest : bytes)
         (p : pstate) (st' : state) (outs : list output) (vis : output -> bool) (closed : list nat)
         (v1 v2 : via_param) (vrest : list via_param),
  nth_opt (c_listens (pc_cfg pc)) li = Some lc -> nth_p (st_proxies st) li = Some p ->
  j_read data = Some jin -> parse_message data = Ok (m, rest) ->
  via_domain m ->
  flat_view (via_hdrs m) = v1 :: v2 :: vrest ->
  supported_proto (to_lower (v_transport v2)) = false ->
  proxy_step fx (pc_cfg pc) now br st (EvUdp li src sport data) = Ok (st', outs) ->
  judge_C02_event pc stj (EvUdp li src sport data) (map B13.labelled (filter vis outs)) closed = O.
Proof. first [ exact C02_bridge.C02_judge_bridge_step_unsupported | intros; eapply C02_bridge.C02_judge_bridge_step_unsupported; eassumption ]. Qed.
Theorem C02_judge_bridge_step_unresolved :
  forall (pc : proxy_case) (stj : jstate) (fx : fixes) (now : Z) (br : bytes) (st : state) (li : nat)
         (lc : listen_cfg) (src : bytes) (sport : Z) (data : bytes) (jin : jmsg) (m : message) (rest : bytes)
         (p : pstate) (st' : state) (outs : list output) (vis : output -> bool) (closed : list nat)
         (v1 v2 : via_param) (vrest : list via_param),
  nth_opt (c_listens (pc_cfg pc)) li = Some lc -> nth_p (st_proxies st) li = Some p ->
  j_read data = Some jin -> parse_message data = Ok (m, rest) ->
  via_domain m ->
  flat_view (via_hdrs m) = v1 :: v2 :: vrest ->
  get_ip (pc_cfg pc) (hop_host v2) = None ->
  proxy_step fx (pc_cfg pc) now br st (EvUdp li src sport data) = Ok (st', outs) ->
  judge_C02_event pc stj (EvUdp li src sport data) (map B13.labelled (filter vis outs)) closed = O.
Proof. first [ exact C02_bridge.C02_judge_bridge_step_unresolved | intros; eapply C02_bridge.C02_judge_bridge_step_unresolved; eassumption ]. Qed.
Theorem C02_judge_bridge_step_tcp_partial :
  forall (pc : proxy_case) (stj : jstate) (fx : fixes) (now : Z) (br : bytes) (st : state) (li : nat)
         (lc : listen_cfg) (src : bytes) (sport : Z) (data : bytes) (jin : jmsg) (m : message) (rest : bytes)
         (p : pstate) (st' : state) (outs : list output) (closed : list nat)
         (v1 v2 : via_param) (vrest : list via_param) (ip : bytes),
  nth_opt (c_listens (pc_cfg pc)) li = Some lc -> nth_p (st_proxies st) li = Some p ->
  j_read data = Some jin -> parse_message data = Ok (m, rest) ->
  via_domain m ->
  flat_view (via_hdrs m) = v1 :: v2 :: vrest ->
  to_lower (v_transport v2) = s2b "tcp" ->
  get_ip (pc_cfg pc) (hop_host v2) = Some ip ->
  fx_udp_via_listener fx = true -> tcp_slot_ok p ->
  proxy_step fx (pc_cfg pc) now br st (EvUdp li src sport data) = Ok (st', outs) ->
  tcp_quiet_ok pc stj ip (hop_port v2) outs ->
  judge_C02_event pc stj (EvUdp li src sport data)
    (map B13.labelled (filter (visible (pc_udp_endpoints pc)) outs)) closed = O.
Proof. first [ exact C02_bridge.C02_judge_bridge_step_tcp_partial | intros; eapply C02_bridge.C02_judge_bridge_step_tcp_partial; eassumption ]. Qed.
Theorem C02_judge_bridge_step_tcp_sent :
  forall (pc : proxy_case) (stj : jstate) (fx : fixes) (now : Z) (br : bytes) (st : state) (li : nat)
         (lc : listen_cfg) (src : bytes) (sport : Z) (data : bytes) (jin : jmsg) (m : message) (rest : bytes)
         (p : pstate) (st' : state) (outs : list output) (closed : list nat)
         (v1 v2 : via_param) (vrest : list via_param) (ip : bytes),
  nth_opt (c_listens (pc_cfg pc)) li = Some lc -> nth_p (st_proxies st) li = Some p ->
  j_read data = Some jin -> parse_message data = Ok (m, rest) ->
  via_domain m ->
  flat_view (via_hdrs m) = v1 :: v2 :: vrest ->
  to_lower (v_transport v2) = s2b "tcp" ->
  get_ip (pc_cfg pc) (hop_host v2) = Some ip ->
  fx_udp_via_listener fx = true -> tcp_slot_ok p ->
  proxy_step fx (pc_cfg pc) now br st (EvUdp li src sport data) = Ok (st', outs) ->
  filter C06.is_msg outs <> [] ->
  judge_C02_event pc stj (EvUdp li src sport data)
    (map B13.labelled (filter (visible (pc_udp_endpoints pc)) outs)) closed = O.
Proof. first [ exact C02_bridge.C02_judge_bridge_step_tcp_sent | intros; eapply C02_bridge.C02_judge_bridge_step_tcp_sent; eassumption ]. Qed.
Theorem C02_judge_bridge_step_tcp_fresh :
  forall (pc : proxy_case) (stj : jstate) (fx : fixes) (now : Z) (br : bytes) (st : state) (li : nat)
         (lc : listen_cfg) (src : bytes) (sport : Z) (data : bytes) (jin : jmsg) (m : message) (rest : bytes)
         (p : pstate) (st' : state) (outs : list output) (closed : list nat)
         (v1 v2 : via_param) (vrest : list via_param) (ip : bytes),
  tcp_agree pc stj st ip (hop_port v2) ->
  nth_opt (c_listens (pc_cfg pc)) li = Some lc -> nth_p (st_proxies st) li = Some p ->
  j_read data = Some jin -> parse_message data = Ok (m, rest) ->
  via_domain m ->
  flat_view (via_hdrs m) = v1 :: v2 :: vrest ->
  to_lower (v_transport v2) = s2b "tcp" ->
  get_ip (pc_cfg pc) (hop_host v2) = Some ip ->
  fx_udp_via_listener fx = true -> tcp_fresh ip (hop_port v2) p ->
  proxy_step fx (pc_cfg pc) now br st (EvUdp li src sport data) = Ok (st', outs) ->
  judge_C02_event pc stj (EvUdp li src sport data)
    (map B13.labelled (filter (visible (pc_udp_endpoints pc)) outs)) closed = O.
Proof. first [ exact C02_bridge.C02_judge_bridge_step_tcp_fresh | intros; eapply C02_bridge.C02_judge_bridge_step_tcp_fresh; eassumption ]. Qed.
Theorem C02_response_general : forall e from m x, is_request m = false ->
  match top_view (pop_view (via_hdrs m)) with
  | Some v2 =>
      exists m4 pins',
        handle_message e from m x =
          send_message e (hop_host v2) (hop_port v2) (v_transport v2) m4
            {| x_learned := x_learned x; x_p := with_pins (x_p x) pins'; x_conns := x_conns x;
               x_world := x_world x; x_outs := x_outs x |} /\
        m_start m4 = m_start m /\ m_body m4 = m_body m /\ via_hdrs m4 = pop_view (via_hdrs m)
  | None => fst (handle_message e from m x) = x
  end.
Proof. first [ exact C02.C02_response_general | intros; eapply C02.C02_response_general; eassumption ]. Qed.
Theorem C02_response_hop : forall e from m x v1 v2 rest1 t,
  is_response m = true ->
  (via_hdrs m = Some (v1 :: v2 :: rest1) :: t          (* comma list in the first Via header *)
   \/ via_hdrs m = Some [v1] :: Some (v2 :: rest1) :: t)  (* repeated header lines *) ->
  exists m4 pins',
    handle_message e from m x =
      send_message e (hop_host v2) (hop_port v2) (v_transport v2) m4
        {| x_learned := x_learned x; x_p := with_pins (x_p x) pins'; x_conns := x_conns x;
           x_world := x_world x; x_outs := x_outs x |} /\
    m_start m4 = m_start m /\ m_body m4 = m_body m /\
    via_hdrs m4 = Some (v2 :: rest1) :: t /\
    snd (decode_all_vias (m_headers m)) = v1 :: snd (decode_all_vias (m_headers m4)).
Proof. first [ exact C02.C02_response_hop | intros; eapply C02.C02_response_hop; eassumption ]. Qed.
Theorem C02_single_via_dropped : forall e from m x,
  is_response m = true ->
  (via_hdrs m = [] \/ (exists l, via_hdrs m = [Some l] /\ (List.length l <= 1)%nat)) ->
  fst (handle_message e from m x) = x.
Proof. first [ exact C02.C02_single_via_dropped | intros; eapply C02.C02_single_via_dropped; eassumption ]. Qed.
Theorem C02_undecodable_dropped : forall e from m x t,
  is_response m = true ->
  (via_hdrs m = None :: t                                  (* first Via header does not decode *)
   \/ (exists l, via_hdrs m = Some l :: None :: t /\ (List.length l <= 1)%nat)  (* the next one does not *)
   \/ (exists l, via_hdrs m = Some l :: Some [] :: t /\ (List.length l <= 1)%nat)) ->
  fst (handle_message e from m x) = x.
Proof. first [ exact C02.C02_undecodable_dropped | intros; eapply C02.C02_undecodable_dropped; eassumption ]. Qed.
Theorem C02_dest_unsupported : forall e host port tr m x,
  supported_proto (to_lower tr) = false ->
  x_outs (fst (send_message e host port tr m x)) = x_outs x.
Proof. first [ exact C02.C02_dest_unsupported | intros; eapply C02.C02_dest_unsupported; eassumption ]. Qed.
Theorem C02_dest_udp : forall e host port tr m x ip,
  to_lower tr = s2b "udp" -> get_ip (e_cfg e) host = Some ip -> resolvable ip port = true ->
  udp_slot_ok ip port (x_p x) -> fits_datagram (write_message (sent_msg m)) = true ->
  x_outs (fst (send_message e host port tr m x)) = x_outs x ++ [(DUdp ip port, write_message (sent_msg m))].
Proof. first [ exact C02.C02_dest_udp | intros; eapply C02.C02_dest_udp; eassumption ]. Qed.
Theorem C02_dest_tcp : forall e host port tr m x,
  fx_udp_via_listener (e_fx e) = true -> to_lower tr = s2b "tcp" -> tcp_slot_ok (x_p x) ->
  exists outs, x_outs (fst (send_message e host port tr m x)) = x_outs x ++ outs /\
               tcp_shape (write_message (sent_msg m)) outs.
Proof. first [ exact C02.C02_dest_tcp | intros; eapply C02.C02_dest_tcp; eassumption ]. Qed.
Theorem C02_tcp_slot_reachable : forall fx c st,
  fx_udp_via_listener fx = true -> reachable fx c st -> Forall tcp_slot_ok (st_proxies st).
Proof. first [ exact C02.C02_tcp_slot_reachable | intros; eapply C02.C02_tcp_slot_reachable; eassumption ]. Qed.
Theorem C02_independent_of_pins : forall e from m x pins' rr' gen' l',
  is_response m = true -> fx_udp_via_listener (e_fx e) = true -> udp_known (x_p x) ->
  let y := {| x_learned := l'; x_p := graft pins' rr' gen' (x_p x); x_conns := x_conns x;
              x_world := x_world x; x_outs := x_outs x |} in
  x_outs (fst (handle_message e from m y)) = x_outs (fst (handle_message e from m x)) /\
  x_conns (fst (handle_message e from m y)) = x_conns (fst (handle_message e from m x)) /\
  x_world (fst (handle_message e from m y)) = x_world (fst (handle_message e from m x)).
Proof. first [ exact C02.C02_independent_of_pins | intros; eapply C02.C02_independent_of_pins; eassumption ]. Qed.
Theorem C02_roundtrip_return : forall e from r x br t0 src sport v rest t,
  is_response r = true -> (int_min <= sport <= int_max)%Z ->
  via_hdrs r = Some [own_via br t0] :: Some (stamp src sport v :: rest) :: t ->
  exists m4 pins',
    handle_message e from r x =
      send_message e src (if kv_has (s2b "rport") (v_params v) then sport else via_get_port v) (v_transport v) m4
        {| x_learned := x_learned x; x_p := with_pins (x_p x) pins'; x_conns := x_conns x;
           x_world := x_world x; x_outs := x_outs x |} /\
    via_hdrs m4 = Some (stamp src sport v :: rest) :: t.
Proof. first [ exact C02.C02_roundtrip_return | intros; eapply C02.C02_roundtrip_return; eassumption ]. Qed.
Theorem C02_roundtrip : forall e src sport from tcp q x x' v rest t,
  is_request q = true -> via_hdrs q = Some (v :: rest) :: t -> (int_min <= sport <= int_max)%Z ->
  process_message e src sport from true tcp q x = Ok x' ->
  exists outs, x_outs x' = x_outs x ++ outs /\
    Forall (fun o =>
      match fst o with
      | DDial _ _ _ => snd o = []
      | _ => exists q', snd o = write_message q' /\
          (via_hdrs q' = Some (stamp src sport v :: rest) :: t
           \/ exists t0, via_hdrs q' = Some [own_via (e_branch e) t0] :: Some (stamp src sport v :: rest) :: t /\
                forall e2 from2 r y, is_response r = true -> via_hdrs r = via_hdrs q' ->
                  exists m4 pins',
                    handle_message e2 from2 r y =
                      send_message e2 src (if kv_has (s2b "rport") (v_params v) then sport else via_get_port v)
                        (v_transport v) m4
                        {| x_learned := x_learned y; x_p := with_pins (x_p y) pins'; x_conns := x_conns y;
                           x_world := x_world y; x_outs := x_outs y |} /\
                    via_hdrs m4 = Some (stamp src sport v :: rest) :: t)
      end) outs.
Proof. first [ exact C02.C02_roundtrip | intros; eapply C02.C02_roundtrip; eassumption ]. Qed.
Theorem C02_process_response : forall e peer port from rs tcp m0 x x',
  is_response m0 = true ->
  process_message e peer port from rs tcp m0 x = Ok x' ->
  match top_view (pop_view (via_hdrs m0)) with
  | Some v2 =>
      exists m4 pins',
        x' = fst (send_message e (hop_host v2) (hop_port v2) (v_transport v2) m4
                   {| x_learned := x_learned x; x_p := with_pins (x_p x) pins'; x_conns := x_conns x;
                      x_world := x_world x; x_outs := x_outs x |}) /\
        m_start m4 = m_start m0 /\ m_body m4 = m_body m0 /\ via_hdrs m4 = pop_view (via_hdrs m0)
  | None => x_outs x' = x_outs x /\ x_conns x' = x_conns x /\ x_world x' = x_world x /\ x_learned x' = x_learned x
  end.
Proof. first [ exact C02.C02_process_response | intros; eapply C02.C02_process_response; eassumption ]. Qed.
End P_C02.

(* ------------------------------------------------------------------ C03 *)
From Model Require Import Bytes Wire Uri Hdr Message Msg StaticRoute RoundRobin Pins Proxy RunProxy SpecC14 SpecProxy SpecProxy2.
From Model.proofs Require C02 C13_bridge C06 C13 C03 C03_bridge C03_bridge_tcp.
Section P_C03.
Import C02 C13_bridge C06 C13 C03 C03_bridge C03_bridge_tcp.
Theorem C03_choose_agree_gen : forall c lc tcp from data jin m rest q,
  t_addr from = lc_addr lc -> t_port from = listener_port lc tcp ->
  j_read data = Some jin -> parse_message data = Ok (m, rest) -> j_request jin = Some q ->
  route_domain_in (RS m) -> to_domain m -> ruri_domain jin -> routes_ok c ->
  is_request m = true /\ hop_rel c (j_choose c lc tcp q) (effective_hop c from m).
Proof. first [ exact C03_bridge_tcp.choose_agree_gen | intros; eapply C03_bridge_tcp.choose_agree_gen; eassumption ]. Qed.
Theorem C03_judge_bridge_tcp_msg :
  forall pc stj cid li lc cn data closed jin m rest e x x' l pre,
  nth_opt (c_listens (pc_cfg pc)) li = Some lc -> e_cfg e = pc_cfg pc -> e_lc e = lc ->
  find (fun y => Nat.eqb (fst y) cid) (js_conns stj) = Some (cid, (li, cn_peer cn, cn_peer_port cn)) ->
  (li < dial_mark)%nat ->
  cn_from cn = {| t_kind := KTcpListen; t_addr := lc_addr lc; t_port := lc_tcp lc |} ->
  j_read data = Some jin -> parse_message data = Ok (m, rest) ->
  route_domain_in (RS m) -> to_domain m -> ruri_domain jin ->
  hosts_ok (pc_cfg pc) -> routes_ok (pc_cfg pc) -> (0 < lc_udp lc \/ 0 < lc_tcp lc)%Z ->
  fx_udp_via_listener (e_fx e) = true -> fx_stale_pin (e_fx e) = true ->
  nth_opt (js_backends stj) li = Some l -> pool_agree l (x_p x) ->
  Forall (backend_ok (pc_udp_endpoints pc)) l ->
  (forall ip port, C02.udp_slot_ok ip port (x_p x)) -> C02.tcp_slot_ok (x_p x) ->
  fits_datagram (write_message (would_send_c e (Some (cn_id cn)) (cn_peer cn) (cn_peer_port cn) (cn_from cn)
                                  (cn_received_support cn) m x)) = true ->
  process_message e (cn_peer cn) (cn_peer_port cn) (cn_from cn) (cn_received_support cn) (Some (cn_id cn)) m x = Ok x' ->
  x_outs x' = x_outs x ++ pre ->
  (forall q ip port, j_request jin = Some q -> j_choose (pc_cfg pc) lc true q = HHop (JTcp ip port) ->
     msg_count pre = 0%nat -> dest_ok pc stj (JTcp ip port) [] = true) ->
  judge_C03_event pc stj (EvTcpData cid data)
    (map labelled (filter (visible (pc_udp_endpoints pc)) pre)) closed = 0%nat.
Proof. first [ exact C03_bridge_tcp.C03_judge_bridge_tcp_msg | intros; eapply C03_bridge_tcp.C03_judge_bridge_tcp_msg; eassumption ]. Qed.
Theorem C03_judge_bridge_tcp_step :
  forall pc stj fx now br st st' outs cid li lc cn p data closed jin m rest,
  nth_opt (c_listens (pc_cfg pc)) li = Some lc ->
  find (fun y => Nat.eqb (cn_id y) cid) (st_conns st) = Some cn ->
  find (fun y => Nat.eqb (fst y) cid) (js_conns stj) = Some (cid, (li, cn_peer cn, cn_peer_port cn)) ->
  (li < dial_mark)%nat ->
  cn_li cn = li -> cn_open cn = true ->
  cn_from cn = {| t_kind := KTcpListen; t_addr := lc_addr lc; t_port := lc_tcp lc |} ->
  j_read data = Some jin -> parse_message data = Ok (m, rest) -> trim_left rest = [] ->
  route_domain_in (RS m) -> to_domain m -> ruri_domain jin ->
  hosts_ok (pc_cfg pc) -> routes_ok (pc_cfg pc) -> (0 < lc_udp lc \/ 0 < lc_tcp lc)%Z ->
  fx_udp_via_listener fx = true -> fx_stale_pin fx = true ->
  pools_agree stj st -> nth_p (st_proxies st) li = Some p ->
  (forall l, nth_opt (js_backends stj) li = Some l -> Forall (backend_ok (pc_udp_endpoints pc)) l) ->
  (forall ip port, C02.udp_slot_ok ip port p) -> C02.tcp_slot_ok p ->
  fits_datagram (write_message (step_would_send_tcp fx (pc_cfg pc) now br st lc cn p m)) = true ->
  proxy_step fx (pc_cfg pc) now br st (EvTcpData cid data) = Ok (st', outs) ->
  (forall q ip port, j_request jin = Some q -> j_choose (pc_cfg pc) lc true q = HHop (JTcp ip port) ->
     msg_count outs = 0%nat -> dest_ok pc stj (JTcp ip port) [] = true) ->
  judge_C03_event pc stj (EvTcpData cid data)
    (map labelled (filter (visible (pc_udp_endpoints pc)) outs)) closed = 0%nat.
Proof. first [ exact C03_bridge_tcp.C03_judge_bridge_tcp_step | intros; eapply C03_bridge_tcp.C03_judge_bridge_tcp_step; eassumption ]. Qed.
Theorem C03_judge_bridge_tcp_step_no_tcp :
  forall pc stj fx now br st st' outs cid li lc cn p data closed jin m rest,
  nth_opt (c_listens (pc_cfg pc)) li = Some lc ->
  find (fun y => Nat.eqb (cn_id y) cid) (st_conns st) = Some cn ->
  find (fun y => Nat.eqb (fst y) cid) (js_conns stj) = Some (cid, (li, cn_peer cn, cn_peer_port cn)) ->
  (li < dial_mark)%nat ->
  cn_li cn = li -> cn_open cn = true ->
  cn_from cn = {| t_kind := KTcpListen; t_addr := lc_addr lc; t_port := lc_tcp lc |} ->
  j_read data = Some jin -> parse_message data = Ok (m, rest) -> trim_left rest = [] ->
  route_domain_in (RS m) -> to_domain m -> ruri_domain jin ->
  hosts_ok (pc_cfg pc) -> routes_ok (pc_cfg pc) -> (0 < lc_udp lc \/ 0 < lc_tcp lc)%Z ->
  fx_udp_via_listener fx = true -> fx_stale_pin fx = true ->
  pools_agree stj st -> nth_p (st_proxies st) li = Some p ->
  (forall l, nth_opt (js_backends stj) li = Some l -> Forall (backend_ok (pc_udp_endpoints pc)) l) ->
  (forall ip port, C02.udp_slot_ok ip port p) -> C02.tcp_slot_ok p ->
  fits_datagram (write_message (step_would_send_tcp fx (pc_cfg pc) now br st lc cn p m)) = true ->
  proxy_step fx (pc_cfg pc) now br st (EvTcpData cid data) = Ok (st', outs) ->
  (forall q ip port, j_request jin = Some q -> j_choose (pc_cfg pc) lc true q <> HHop (JTcp ip port)) ->
  judge_C03_event pc stj (EvTcpData cid data)
    (map labelled (filter (visible (pc_udp_endpoints pc)) outs)) closed = 0%nat.
Proof. first [ exact C03_bridge_tcp.C03_judge_bridge_tcp_step_no_tcp | intros; eapply C03_bridge_tcp.C03_judge_bridge_tcp_step_no_tcp; eassumption ]. Qed.
Theorem C03_choose_agree : forall c lc data jin m rest q,
  j_read data = Some jin -> parse_message data = Ok (m, rest) -> j_request jin = Some q ->
  route_domain_in (RS m) -> to_domain m -> ruri_domain jin -> routes_ok c ->
  is_request m = true /\ hop_rel c (j_choose c lc false q) (effective_hop c (udp_transport lc) m).
Proof. first [ exact C03_bridge.choose_agree | intros; eapply C03_bridge.choose_agree; eassumption ]. Qed.
Theorem C03_judge_bridge_udp :
  forall pc stj li lc src sport data closed jin m rest e rs x x' l,
  nth_opt (c_listens (pc_cfg pc)) li = Some lc -> e_cfg e = pc_cfg pc -> e_lc e = lc ->
  j_read data = Some jin -> parse_message data = Ok (m, rest) ->
  route_domain_in (RS m) -> to_domain m -> ruri_domain jin ->
  hosts_ok (pc_cfg pc) -> routes_ok (pc_cfg pc) -> (0 < lc_udp lc)%Z ->
  fx_udp_via_listener (e_fx e) = true -> fx_stale_pin (e_fx e) = true ->
  nth_opt (js_backends stj) li = Some l -> pool_agree l (x_p x) ->
  Forall (backend_ok (pc_udp_endpoints pc)) l ->
  (forall ip port, C02.udp_slot_ok ip port (x_p x)) -> C02.tcp_slot_ok (x_p x) ->
  fits_datagram (write_message (would_send e src sport (udp_transport lc) rs m x)) = true ->
  process_message e src sport (udp_transport lc) rs None m x = Ok x' ->
  exists pre, x_outs x' = x_outs x ++ pre /\ (msg_count pre <= 1)%nat /\
    ((forall q ip port, j_request jin = Some q -> j_choose (pc_cfg pc) lc false q = HHop (JTcp ip port) ->
        msg_count pre = 0%nat -> dest_ok pc stj (JTcp ip port) [] = true) ->
     judge_C03_event pc stj (EvUdp li src sport data)
       (map labelled (filter (visible (pc_udp_endpoints pc)) pre)) closed = 0%nat).
Proof. first [ exact C03_bridge.C03_judge_bridge_udp | intros; eapply C03_bridge.C03_judge_bridge_udp; eassumption ]. Qed.
Theorem C03_judge_bridge_step :
  forall pc stj fx now br st st' outs li lc p src sport data closed jin m rest,
  nth_opt (c_listens (pc_cfg pc)) li = Some lc ->
  j_read data = Some jin -> parse_message data = Ok (m, rest) ->
  route_domain_in (RS m) -> to_domain m -> ruri_domain jin ->
  hosts_ok (pc_cfg pc) -> routes_ok (pc_cfg pc) -> (0 < lc_udp lc)%Z ->
  fx_udp_via_listener fx = true -> fx_stale_pin fx = true ->
  agree stj st -> nth_p (st_proxies st) li = Some p ->
  (forall l, nth_opt (js_backends stj) li = Some l -> Forall (backend_ok (pc_udp_endpoints pc)) l) ->
  (forall ip port, C02.udp_slot_ok ip port p) -> C02.tcp_slot_ok p ->
  fits_datagram (write_message (step_would_send fx (pc_cfg pc) now br st li lc p src sport m)) = true ->
  proxy_step fx (pc_cfg pc) now br st (EvUdp li src sport data) = Ok (st', outs) ->
  (forall q ip port, j_request jin = Some q -> j_choose (pc_cfg pc) lc false q = HHop (JTcp ip port) ->
     msg_count outs = 0%nat -> dest_ok pc stj (JTcp ip port) [] = true) ->
  judge_C03_event pc stj (EvUdp li src sport data)
    (map labelled (filter (visible (pc_udp_endpoints pc)) outs)) closed = 0%nat.
Proof. first [ exact C03_bridge.C03_judge_bridge_step | intros; eapply C03_bridge.C03_judge_bridge_step; eassumption ]. Qed.
Theorem C03_judge_bridge_step_no_tcp :
  forall pc stj fx now br st st' outs li lc p src sport data closed jin m rest,
  nth_opt (c_listens (pc_cfg pc)) li = Some lc ->
  j_read data = Some jin -> parse_message data = Ok (m, rest) ->
  route_domain_in (RS m) -> to_domain m -> ruri_domain jin ->
  hosts_ok (pc_cfg pc) -> routes_ok (pc_cfg pc) -> (0 < lc_udp lc)%Z ->
  fx_udp_via_listener fx = true -> fx_stale_pin fx = true ->
  agree stj st -> nth_p (st_proxies st) li = Some p ->
  (forall l, nth_opt (js_backends stj) li = Some l -> Forall (backend_ok (pc_udp_endpoints pc)) l) ->
  (forall ip port, C02.udp_slot_ok ip port p) -> C02.tcp_slot_ok p ->
  fits_datagram (write_message (step_would_send fx (pc_cfg pc) now br st li lc p src sport m)) = true ->
  proxy_step fx (pc_cfg pc) now br st (EvUdp li src sport data) = Ok (st', outs) ->
  (forall q ip port, j_request jin = Some q -> j_choose (pc_cfg pc) lc false q <> HHop (JTcp ip port)) ->
  judge_C03_event pc stj (EvUdp li src sport data)
    (map labelled (filter (visible (pc_udp_endpoints pc)) outs)) closed = 0%nat.
Proof. first [ exact C03_bridge.C03_judge_bridge_step_no_tcp | intros; eapply C03_bridge.C03_judge_bridge_step_no_tcp; eassumption ]. Qed.
Theorem C03_agree_step_udp : forall pc stj fx now br st st' outs li src sport data,
  agree stj st ->
  proxy_step fx (pc_cfg pc) now br st (EvUdp li src sport data) = Ok (st', outs) ->
  dials_readable outs ->
  agree (js_step_c stj (EvUdp li src sport data) (map labelled (filter (visible (pc_udp_endpoints pc)) outs)) []) st'.
Proof. first [ exact C03_bridge.agree_step_udp | intros; eapply C03_bridge.agree_step_udp; eassumption ]. Qed.
Theorem C03_at_most_one : forall e peer peer_port from rs tcp m x x',
  process_message e peer peer_port from rs tcp m x = Ok x' ->
  exists extra, x_outs x' = x_outs x ++ extra /\ (msg_count extra <= 1)%nat.
Proof. first [ exact C03.C03_at_most_one | intros; eapply C03.C03_at_most_one; eassumption ]. Qed.
Theorem C03_at_most_one_udp : forall fx c now branch st li src sport data st' outs,
  proxy_step fx c now branch st (EvUdp li src sport data) = Ok (st', outs) -> (msg_count outs <= 1)%nat.
Proof. first [ exact C03.C03_at_most_one_udp | intros; eapply C03.C03_at_most_one_udp; eassumption ]. Qed.
Theorem C03_at_most_one_tcp : forall fx c now branch st cid data st' outs,
  proxy_step fx c now branch st (EvTcpData cid data) = Ok (st', outs) ->
  exists chunks, outs = List.concat chunks /\
                 (List.length chunks <= List.length (parse_stream (S (List.length data)) data))%nat /\
                 Forall (fun ch => (msg_count ch <= 1)%nat) chunks.
Proof. first [ exact C03.C03_at_most_one_tcp | intros; eapply C03.C03_at_most_one_tcp; eassumption ]. Qed.
Theorem C03_choice : forall e peer peer_port from rs tcp m0 x x',
  is_request m0 = true ->
  process_message e peer peer_port from rs tcp m0 x = Ok x' ->
  exists m1 p1,
    let x1 := {| x_learned := learned_after peer from m0 x; x_p := p1; x_conns := x_conns x;
                 x_world := x_world x; x_outs := x_outs x |} in
    same_rr (x_p x) p1 /\
    (forall nm, disjoint_names nm (s2b "Via") -> disjoint_names nm (s2b "CSeq") ->
                disjoint_names nm (s2b "Route") -> disjoint_names nm (s2b "To") -> frame nm m0 m1) /\
    via_rel m0 m1 /\
    route_view m1 = skipn (route_consumed (e_cfg e) from (c_keep_next_hop (e_cfg e)) (route_view m0)) (route_view m0) /\
    match effective_hop (e_cfg e) from m0 with
    | HopAddr host port transport =>
        x' = fst (send_message e host port transport (decorate e (x_learned x1) host m1) x1)
    | HopBackend => x' = fst (send_to_backend e m1 x1)
    | HopNone => x' = x1
    | HopOut => False
    end.
Proof. first [ exact C03.C03_choice | intros; eapply C03.C03_choice; eassumption ]. Qed.
Theorem C03_choice_outputs : forall e peer peer_port from rs tcp m0 x x',
  is_request m0 = true ->
  process_message e peer peer_port from rs tcp m0 x = Ok x' ->
  exists extra, x_outs x' = x_outs x ++ extra /\ (msg_count extra <= 1)%nat /\
    match effective_hop (e_cfg e) from m0 with
    | HopAddr host port transport =>
        (* only through the client transport for (transport, host, port); nothing for a
           transport other than udp / tcp *)
        supported_proto (to_lower transport) = false -> extra = []
    | HopBackend =>
        extra = [] \/ exists a d b, extra = [(d, b)] /\ backend_dest a = Some d /\
                                    (In a (rr_backends (ps_rr (x_p x))) \/ exists g, backend_alive a g (x_p x) = true)
    | HopNone => extra = []
    | HopOut => False
    end.
Proof. first [ exact C03.C03_choice_outputs | intros; eapply C03.C03_choice_outputs; eassumption ]. Qed.
Theorem C03_non_sip_route : forall c from m rp rest s,
  remaining_routes c from m = EDec rp :: rest -> na_addr (r_addr rp) = AAbs s ->
  choose_hop c from m = HopOut /\ effective_hop c from m = lower_choice c from m /\
  forall keep, route_consumed c from keep (route_view m) =
               ((match route_view m with EDec e1 :: _ => if designates c from e1 then 1 else 0 | _ => 0 end) +
                (if keep then 0 else 1))%nat.
Proof. first [ exact C03.C03_non_sip_route | intros; eapply C03.C03_non_sip_route; eassumption ]. Qed.
Theorem C03_backend_member : forall e m x,
  (forall a g, pinned_backend e (x_p x) m <> Some (BObj a g)) ->
  exists extra, x_outs (fst (send_to_backend e m x)) = x_outs x ++ extra /\
    (extra = [] \/ exists a d b, extra = [(d, b)] /\ In a (rr_backends (ps_rr (x_p x))) /\ backend_dest a = Some d) /\
    (rr_backends (ps_rr (x_p x)) = [] -> extra = []).
Proof. first [ exact C03.C03_backend_member | intros; eapply C03.C03_backend_member; eassumption ]. Qed.
Theorem C03_backend_member_event : forall e peer peer_port from rs tcp m0 x x',
  is_request m0 = true ->
  process_message e peer peer_port from rs tcp m0 x = Ok x' ->
  effective_hop (e_cfg e) from m0 = HopBackend ->
  exists m1 p1, same_rr (x_p x) p1 /\
    ((forall a g, pinned_backend e p1 m1 <> Some (BObj a g)) ->
     exists extra, x_outs x' = x_outs x ++ extra /\
       (extra = [] \/ exists a d b, extra = [(d, b)] /\ In a (rr_backends (ps_rr (x_p x))) /\ backend_dest a = Some d) /\
       (rr_backends (ps_rr (x_p x)) = [] -> extra = [])).
Proof. first [ exact C03.C03_backend_member_event | intros; eapply C03.C03_backend_member_event; eassumption ]. Qed.
Theorem C03_unsupported_transport_dropped : forall e host port transport m x,
  to_lower transport <> s2b "udp" -> to_lower transport <> s2b "tcp" ->
  x_outs (fst (send_message e host port transport m x)) = x_outs x.
Proof. first [ exact C03.C03_unsupported_transport_dropped | intros; eapply C03.C03_unsupported_transport_dropped; eassumption ]. Qed.
Theorem C03_unsupported_transport_event : forall e peer peer_port from rs tcp m0 x x' host port transport,
  is_request m0 = true ->
  process_message e peer peer_port from rs tcp m0 x = Ok x' ->
  effective_hop (e_cfg e) from m0 = HopAddr host port transport ->
  to_lower transport <> s2b "udp" -> to_lower transport <> s2b "tcp" ->
  x_outs x' = x_outs x.
Proof. first [ exact C03.C03_unsupported_transport_event | intros; eapply C03.C03_unsupported_transport_event; eassumption ]. Qed.
Theorem C03_b1_legacy_refuted :
  effective_hop cfgA ex_from (msg_of b1_req) = HopAddr (s2b "10.0.0.5") 5070 (s2b "tcp") /\
  dests (run1 b1_fixes cfgA [(s2b "10.0.0.5", 5070)] b1_req) = [DUdp (s2b "10.0.0.5") 5070] /\
  dests (run1 all_fixed cfgA [(s2b "10.0.0.5", 5070)] b1_req) = [DDial (s2b "10.0.0.5") 5070 0; DConn 0].
Proof. first [ exact C03.C03_b1_legacy_refuted | intros; eapply C03.C03_b1_legacy_refuted; eassumption ]. Qed.
End P_C03.

(* ------------------------------------------------------------------ C06 *)
From Model Require Import Bytes Wire Uri Hdr Message Msg StaticRoute RoundRobin Pins Proxy RunProxy SpecC14 SpecProxy SpecProxy2.
From Model.proofs Require C07_bridge C13_bridge C06 C13 C03 C06_bridge C06_bridge_tcp.
Section P_C06.
Import C07_bridge C13_bridge C06 C13 C03 C06_bridge C06_bridge_tcp.
Theorem C06_judge_bridge_tcp_msg :
  forall pc stj cid li lc cn data closed jin m rest e x x' pre,
  nth_opt (c_listens (pc_cfg pc)) li = Some lc -> e_cfg e = pc_cfg pc -> e_lc e = lc ->
  e_branch e = branch_of (js_event stj) ->
  find (fun y => Nat.eqb (fst y) cid) (js_conns stj) = Some (cid, (li, cn_peer cn, cn_peer_port cn)) ->
  (li < dial_mark)%nat ->
  cn_from cn = {| t_kind := KTcpListen; t_addr := lc_addr lc; t_port := lc_tcp lc |} ->
  j_read data = Some jin -> parse_message data = Ok (m, rest) ->
  agree_learned (pc_cfg pc) (js_learned stj) (x_learned x) ->
  amem (cn_peer cn) (ps_backends (x_p x)) = false ->
  B7.via_domain m -> B13.route_domain_in (B13.RS m) -> to_domain m -> ruri_domain jin ->
  B7.src_ok (cn_peer cn) -> B7.branch_ok (e_branch e) ->
  safe1 (lc_addr lc) = true -> (0 <= lc_udp lc <= 65535)%Z -> (1 <= lc_tcp lc <= 65535)%Z ->
  lrn_ok (x_learned x) ->
  process_message e (cn_peer cn) (cn_peer_port cn) (cn_from cn) (cn_received_support cn) (Some (cn_id cn)) m x
    = Ok x' ->
  x_outs x' = x_outs x ++ pre ->
  forall vis, judge_C06_event pc stj (EvTcpData cid data) (map B13.labelled (filter vis pre)) closed = 0%nat.
Proof. first [ exact C06_bridge_tcp.C06_judge_bridge_tcp_msg | intros; eapply C06_bridge_tcp.C06_judge_bridge_tcp_msg; eassumption ]. Qed.
Theorem C06_judge_bridge_tcp_step :
  forall pc stj fx now br st st' outs cid li lc cn data closed jin m rest,
  nth_opt (c_listens (pc_cfg pc)) li = Some lc ->
  find (fun y => Nat.eqb (cn_id y) cid) (st_conns st) = Some cn ->
  find (fun y => Nat.eqb (fst y) cid) (js_conns stj) = Some (cid, (li, cn_peer cn, cn_peer_port cn)) ->
  (li < dial_mark)%nat ->
  cn_li cn = li ->
  cn_from cn = {| t_kind := KTcpListen; t_addr := lc_addr lc; t_port := lc_tcp lc |} ->
  j_read data = Some jin -> parse_message data = Ok (m, rest) -> trim_left rest = [] ->
  br = branch_of (js_event stj) ->
  agree_learned (pc_cfg pc) (js_learned stj) (st_learned st) ->
  (forall p, nth_p (st_proxies st) li = Some p -> amem (cn_peer cn) (ps_backends p) = false) ->
  B7.via_domain m -> B13.route_domain_in (B13.RS m) -> to_domain m -> ruri_domain jin ->
  B7.src_ok (cn_peer cn) -> B7.branch_ok br ->
  safe1 (lc_addr lc) = true -> (0 <= lc_udp lc <= 65535)%Z -> (1 <= lc_tcp lc <= 65535)%Z ->
  lrn_ok (st_learned st) ->
  proxy_step fx (pc_cfg pc) now br st (EvTcpData cid data) = Ok (st', outs) ->
  forall vis, judge_C06_event pc stj (EvTcpData cid data) (map B13.labelled (filter vis outs)) closed = 0%nat.
Proof. first [ exact C06_bridge_tcp.C06_judge_bridge_tcp_step | intros; eapply C06_bridge_tcp.C06_judge_bridge_tcp_step; eassumption ]. Qed.
Theorem C06_agree_tcp_step :
  forall pc stj fx now br st st' outs cid li lc cn data jin m rest outs' closed,
  nth_opt (c_listens (pc_cfg pc)) li = Some lc ->
  find (fun y => Nat.eqb (cn_id y) cid) (st_conns st) = Some cn ->
  find (fun y => Nat.eqb (fst y) cid) (js_conns stj) = Some (cid, (li, cn_peer cn, cn_peer_port cn)) ->
  (li < dial_mark)%nat ->
  cn_li cn = li -> cn_open cn = true ->
  cn_from cn = {| t_kind := KTcpListen; t_addr := lc_addr lc; t_port := lc_tcp lc |} ->
  j_read data = Some jin -> parse_message data = Ok (m, rest) -> trim_left rest = [] ->
  agree_learned (pc_cfg pc) (js_learned stj) (st_learned st) ->
  (exists p, nth_p (st_proxies st) li = Some p /\ amem (cn_peer cn) (ps_backends p) = false) ->
  B7.via_domain m ->
  proxy_step fx (pc_cfg pc) now br st (EvTcpData cid data) = Ok (st', outs) ->
  agree_learned (pc_cfg pc) (js_learned (js_step_c stj (EvTcpData cid data) outs' closed)) (st_learned st').
Proof. first [ exact C06_bridge_tcp.C06_agree_tcp_step | intros; eapply C06_bridge_tcp.C06_agree_tcp_step; eassumption ]. Qed.
Theorem C06_lrn_ok_tcp_step :
  forall fx c now br st st' outs cid lc cn data,
  find (fun y => Nat.eqb (cn_id y) cid) (st_conns st) = Some cn ->
  cn_from cn = {| t_kind := KTcpListen; t_addr := lc_addr lc; t_port := lc_tcp lc |} ->
  safe1 (lc_addr lc) = true -> (1 <= lc_tcp lc <= 65535)%Z ->
  lrn_ok (st_learned st) ->
  proxy_step fx c now br st (EvTcpData cid data) = Ok (st', outs) -> lrn_ok (st_learned st').
Proof. first [ exact C06_bridge_tcp.C06_lrn_ok_tcp_step | intros; eapply C06_bridge_tcp.C06_lrn_ok_tcp_step; eassumption ]. Qed.
Theorem C06_judge_bridge_step :
  forall pc stj fx now br st st' outs li lc src sport data closed jin m rest,
  nth_opt (c_listens (pc_cfg pc)) li = Some lc ->
  j_read data = Some jin -> parse_message data = Ok (m, rest) ->
  br = branch_of (js_event stj) ->
  agree_learned (pc_cfg pc) (js_learned stj) (st_learned st) ->
  (forall p, nth_p (st_proxies st) li = Some p -> amem src (ps_backends p) = false) ->
  B7.via_domain m -> B13.route_domain_in (B13.RS m) -> to_domain m -> ruri_domain jin ->
  B7.src_ok src -> B7.branch_ok br ->
  safe1 (lc_addr lc) = true -> (1 <= lc_udp lc <= 65535)%Z -> (0 <= lc_tcp lc <= 65535)%Z ->
  lrn_ok (st_learned st) ->
  proxy_step fx (pc_cfg pc) now br st (EvUdp li src sport data) = Ok (st', outs) ->
  forall vis, judge_C06_event pc stj (EvUdp li src sport data) (map B13.labelled (filter vis outs)) closed = 0%nat.
Proof. first [ exact C06_bridge.C06_judge_bridge_step | intros; eapply C06_bridge.C06_judge_bridge_step; eassumption ]. Qed.
Theorem C06_judge_bridge_udp :
  forall pc stj li lc src sport data closed jin m rest e rs x x' pre,
  nth_opt (c_listens (pc_cfg pc)) li = Some lc -> e_cfg e = pc_cfg pc -> e_lc e = lc ->
  e_branch e = branch_of (js_event stj) ->
  j_read data = Some jin -> parse_message data = Ok (m, rest) ->
  agree_learned (pc_cfg pc) (js_learned stj) (x_learned x) ->
  amem src (ps_backends (x_p x)) = false ->
  B7.via_domain m -> B13.route_domain_in (B13.RS m) -> to_domain m -> ruri_domain jin ->
  B7.src_ok src -> B7.branch_ok (e_branch e) ->
  safe1 (lc_addr lc) = true -> (1 <= lc_udp lc <= 65535)%Z -> (0 <= lc_tcp lc <= 65535)%Z ->
  lrn_ok (x_learned x) ->
  process_message e src sport (B13.udp_transport lc) rs None m x = Ok x' ->
  x_outs x' = x_outs x ++ pre ->
  forall vis, judge_C06_event pc stj (EvUdp li src sport data) (map B13.labelled (filter vis pre)) closed = 0%nat.
Proof. first [ exact C06_bridge.C06_judge_bridge_udp | intros; eapply C06_bridge.C06_judge_bridge_udp; eassumption ]. Qed.
Theorem C06_agree_step :
  forall pc stj fx now br st st' outs li lc src sport data jin m rest outs' closed,
  nth_opt (c_listens (pc_cfg pc)) li = Some lc ->
  j_read data = Some jin -> parse_message data = Ok (m, rest) ->
  agree_learned (pc_cfg pc) (js_learned stj) (st_learned st) ->
  (exists p, nth_p (st_proxies st) li = Some p /\ amem src (ps_backends p) = false) ->
  B7.via_domain m ->
  proxy_step fx (pc_cfg pc) now br st (EvUdp li src sport data) = Ok (st', outs) ->
  agree_learned (pc_cfg pc) (js_learned (js_step_c stj (EvUdp li src sport data) outs' closed)) (st_learned st').
Proof. first [ exact C06_bridge.C06_agree_step | intros; eapply C06_bridge.C06_agree_step; eassumption ]. Qed.
Theorem C06_lrn_ok_step :
  forall fx c now br st st' outs li lc src sport data,
  nth_opt (c_listens c) li = Some lc -> safe1 (lc_addr lc) = true -> (1 <= lc_udp lc <= 65535)%Z ->
  lrn_ok (st_learned st) ->
  proxy_step fx c now br st (EvUdp li src sport data) = Ok (st', outs) -> lrn_ok (st_learned st').
Proof. first [ exact C06_bridge.C06_lrn_ok_step | intros; eapply C06_bridge.C06_lrn_ok_step; eassumption ]. Qed.
Theorem C06_via_pushed : forall e t m,
  let k := via_pos m in
  m_headers (px_add_via e t m) = firstn k (m_headers m) ++ pushed_via_header e t :: skipn k (m_headers m) /\
  m_start (px_add_via e t m) = m_start m /\ m_body (px_add_via e t m) = m_body m /\
  sel (s2b "Via") (m_headers (px_add_via e t m)) = pushed_via_header e t :: sel (s2b "Via") (m_headers m) /\
  all_vias (m_headers (px_add_via e t m)) = pushed_via e t :: all_vias (m_headers m) /\
  (forall nm, same_header (s2b "Via") nm = false -> frame nm m (px_add_via e t m)).
Proof. first [ exact C06.C06_via_pushed | intros; eapply C06.C06_via_pushed; eassumption ]. Qed.
Theorem C06_via_position : forall e t m,
  let k := via_pos m in
  (k <= List.length (m_headers m))%nat /\
  nth_error (m_headers (px_add_via e t m)) k = Some (pushed_via_header e t) /\
  firstn k (m_headers (px_add_via e t m)) = firstn k (m_headers m) /\
  skipn (S k) (m_headers (px_add_via e t m)) = skipn k (m_headers m) /\
  sel (s2b "Via") (firstn k (m_headers m)) = [] /\
  (sel (s2b "Via") (m_headers m) = [] -> k = O) /\
  (sel (s2b "Via") (m_headers m) <> [] ->
     exists h r, skipn k (m_headers m) = h :: r /\ same_header (h_name h) (s2b "Via") = true).
Proof. first [ exact C06.C06_via_position | intros; eapply C06.C06_via_position; eassumption ]. Qed.
Theorem C06_branch : forall e t, via_get_branch (pushed_via e t) = Some (e_branch e).
Proof. first [ exact C06.C06_branch | intros; eapply C06.C06_branch; eassumption ]. Qed.
Theorem C06_rr_policy : forall must t m,
  if (has_header (s2b "Record-Route") m || must)%bool then
    let k := find_record_route_pos (m_headers m) in
    m_headers (px_add_record_route must t m)
      = firstn k (m_headers m) ++ own_rr_header t :: skipn k (m_headers m) /\
    m_start (px_add_record_route must t m) = m_start m /\ m_body (px_add_record_route must t m) = m_body m /\
    sel (s2b "Record-Route") (m_headers (px_add_record_route must t m))
      = own_rr_header t :: sel (s2b "Record-Route") (m_headers m) /\
    all_rr (m_headers (px_add_record_route must t m)) = own_record_route t :: all_rr (m_headers m) /\
    (forall nm, same_header (s2b "Record-Route") nm = false -> frame nm m (px_add_record_route must t m))
  else px_add_record_route must t m = m.
Proof. first [ exact C06.C06_rr_policy | intros; eapply C06.C06_rr_policy; eassumption ]. Qed.
Theorem C06_rr_position : forall must t m,
  (has_header (s2b "Record-Route") m || must)%bool = true ->
  let k := find_record_route_pos (m_headers m) in
  (k <= List.length (m_headers m))%nat /\
  nth_error (m_headers (px_add_record_route must t m)) k = Some (own_rr_header t) /\
  firstn k (m_headers (px_add_record_route must t m)) = firstn k (m_headers m) /\
  skipn (S k) (m_headers (px_add_record_route must t m)) = skipn k (m_headers m) /\
  sel (s2b "Record-Route") (firstn k (m_headers m)) = [] /\
  (has_header (s2b "Record-Route") m = true ->
     exists h r, skipn k (m_headers m) = h :: r /\ same_header (h_name h) (s2b "Record-Route") = true).
Proof. first [ exact C06.C06_rr_position | intros; eapply C06.C06_rr_position; eassumption ]. Qed.
Theorem C06_rr_flat : forall must t m,
  all_rr (m_headers (px_add_record_route must t m)) =
  if (has_header (s2b "Record-Route") m || must)%bool then own_record_route t :: all_rr (m_headers m)
  else all_rr (m_headers m).
Proof. first [ exact C06.C06_rr_flat | intros; eapply C06.C06_rr_flat; eassumption ]. Qed.
Theorem C06_own_record_route_text : forall t, t_port t <> 0 ->
  route_print [own_record_route t] = s2b "<sip:" ++ t_addr t ++ ":"%char :: itoa (t_port t) ++ s2b ";lr>".
Proof. first [ exact C06.own_record_route_text | intros; eapply C06.own_record_route_text; eassumption ]. Qed.
Theorem C06_decorate_learned : forall e l host t m,
  alookup host l = Some t ->
  all_vias (m_headers (decorate e l host m)) = pushed_via e t :: all_vias (m_headers m) /\
  all_rr (m_headers (decorate e l host m)) =
    (if (has_header (s2b "Record-Route") m || pa_must_rr (wire_proxy (e_lc e)))%bool
     then own_record_route t :: all_rr (m_headers m) else all_rr (m_headers m)) /\
  m_start (decorate e l host m) = m_start m /\ m_body (decorate e l host m) = m_body m /\
  (forall nm, same_header (s2b "Via") nm = false -> same_header (s2b "Record-Route") nm = false ->
              frame nm m (decorate e l host m)).
Proof. first [ exact C06.C06_decorate_learned | intros; eapply C06.C06_decorate_learned; eassumption ]. Qed.
Theorem C06_not_learned_untouched : forall e l host m, alookup host l = None -> decorate e l host m = m.
Proof. first [ exact C06.C06_not_learned_untouched | intros; eapply C06.C06_not_learned_untouched; eassumption ]. Qed.
Theorem C06_backend_decorates : forall e t0 p m,
  all_vias (m_headers (backend_message e t0 p m)) = pushed_via e t0 :: all_vias (m_headers m) /\
  all_rr (m_headers (backend_message e t0 p m)) =
    (if (has_header (s2b "Record-Route") m || pa_must_rr (wire_proxy (e_lc e)))%bool
     then own_record_route t0 :: all_rr (m_headers m) else all_rr (m_headers m)).
Proof. first [ exact C06.C06_backend_decorates | intros; eapply C06.C06_backend_decorates; eassumption ]. Qed.
Theorem C06_branch_of_inj : forall a b, branch_of a = branch_of b -> a = b.
Proof. first [ exact C06.branch_of_inj | intros; eapply C06.branch_of_inj; eassumption ]. Qed.
Theorem C06_branch_of_cookie : forall n, has_prefix (s2b "z9hG4bK") (branch_of n) = true.
Proof. first [ exact C06.branch_of_cookie | intros; eapply C06.branch_of_cookie; eassumption ]. Qed.
Theorem C06_branches_distinct : forall e0 n, NoDup (map branch_of (seq e0 n)).
Proof. first [ exact C06.C06_branches_distinct | intros; eapply C06.C06_branches_distinct; eassumption ]. Qed.
Theorem C06_learn_lookup : forall k ip t l,
  alookup k (learn ip t l) =
  if beq k ip
  then Some (match alookup ip l with
             | Some old => if same_transport old t then old else t
             | None => t
             end)
  else alookup k l.
Proof. first [ exact C06.learn_lookup | intros; eapply C06.learn_lookup; eassumption ]. Qed.
Theorem C06_learning : forall e peer peer_port from rs tcp m0 x x',
  process_message e peer peer_port from rs tcp m0 x = Ok x' ->
  x_learned x' =
  if (is_request m0 && negb (amem peer (ps_backends (x_p x))))%bool
  then fold_left (fun l h => learn h from l) (peer :: map v_host (all_vias (m_headers m0))) (x_learned x)
  else x_learned x.
Proof. first [ exact C06.C06_learning | intros; eapply C06.C06_learning; eassumption ]. Qed.
Theorem C06_learning_response : forall e peer peer_port from rs tcp m0 x x',
  is_request m0 = false ->
  process_message e peer peer_port from rs tcp m0 x = Ok x' -> x_learned x' = x_learned x.
Proof. first [ exact C06.C06_learning_response | intros; eapply C06.C06_learning_response; eassumption ]. Qed.
Theorem C06_relayed_request : forall e peer peer_port from rs tcp m0 x x',
  is_request m0 = true ->
  process_message e peer peer_port from rs tcp m0 x = Ok x' ->
  exists m1 extra, x_outs x' = x_outs x ++ extra /\ (msg_count extra <= 1)%nat /\ via_rel m0 m1 /\
    let rr_of t := if (has_header (s2b "Record-Route") m0 || pa_must_rr (wire_proxy (e_lc e)))%bool
                   then own_record_route t :: all_rr (m_headers m0) else all_rr (m_headers m0) in
    forall o, In o extra -> is_msg o = true ->
      exists mo, snd o = write_message mo /\
        match effective_hop (e_cfg e) from m0 with
        | HopAddr host _ _ =>
            match alookup host (learned_after peer from m0 x) with
            | Some t => all_vias (m_headers mo) = pushed_via e t :: all_vias (m_headers m1) /\
                        all_rr (m_headers mo) = rr_of t
            | None => all_vias (m_headers mo) = all_vias (m_headers m1) /\
                      all_rr (m_headers mo) = all_rr (m_headers m0)
            end
        | HopBackend =>
            exists t0, first_transport (e_lc e) = Some t0 /\
                       all_vias (m_headers mo) = pushed_via e t0 :: all_vias (m_headers m1) /\
                       all_rr (m_headers mo) = rr_of t0
        | _ => False
        end.
Proof. first [ exact C03.C06_relayed_request | intros; eapply C03.C06_relayed_request; eassumption ]. Qed.
End P_C06.

(* ------------------------------------------------------------------ C07 *)
From Model Require Import Bytes Wire Uri Hdr Message Msg StaticRoute RoundRobin Pins Proxy RunProxy SpecC14 SpecProxy SpecProxy2.
From Model.proofs Require C07 C07_bridge C07_bridge_tcp.
Section P_C07.
Import C07 C07_bridge C07_bridge_tcp.
Theorem C07_judge_bridge_tcp_msg :
  forall (pc : proxy_case) (stj : jstate) (fx : fixes) (now : Z) (br : bytes) (cid li : nat) (lc : listen_cfg)
         (cn : conn) (data : bytes) (jin : jmsg) (m : message) (rest : bytes)
         (x x' : ctx) (pre : list output) (keep : output -> bool) (closed : list nat),
  let c := pc_cfg pc in
  let e := mk_env fx c (item_rs_of (fx_wiring fx)) li lc now br in
  nth_opt (c_listens c) li = Some lc ->
  find (fun y => Nat.eqb (fst y) cid) (js_conns stj) = Some (cid, (li, cn_peer cn, cn_peer_port cn)) ->
  (li < dial_mark)%nat ->
  cn_from cn = {| t_kind := KTcpListen; t_addr := lc_addr lc; t_port := lc_tcp lc |} ->
  cn_received_support cn = received_on lc ->
  j_read data = Some jin -> parse_message data = Ok (m, rest) ->
  via_domain m ->
  src_ok (cn_peer cn) -> branch_ok br ->
  safe1 (lc_addr lc) = true -> 0 <= lc_udp lc <= 65535 -> 0 <= lc_tcp lc <= 65535 ->
  (forall h t, alookup h (x_learned x) = Some t -> safe1 (t_addr t) = true /\ 0 <= t_port t <= 65535) ->
  process_message e (cn_peer cn) (cn_peer_port cn) (cn_from cn) (cn_received_support cn) (Some (cn_id cn)) m x
    = Ok x' ->
  x_outs x' = x_outs x ++ pre ->
  judge_C07_event pc stj (EvTcpData cid data) (map lab (filter keep pre)) closed = O.
Proof. first [ exact C07_bridge_tcp.C07_judge_bridge_tcp_msg | intros; eapply C07_bridge_tcp.C07_judge_bridge_tcp_msg; eassumption ]. Qed.
Theorem C07_judge_bridge_tcp_step :
  forall (pc : proxy_case) (stj : jstate) (fx : fixes) (now : Z) (br : bytes) (st : state) (cid li : nat)
         (lc : listen_cfg) (cn : conn) (data : bytes) (jin : jmsg) (m : message) (rest : bytes)
         (st' : state) (outs : list output) (keep : output -> bool) (closed : list nat),
  nth_opt (c_listens (pc_cfg pc)) li = Some lc ->
  find (fun y => Nat.eqb (cn_id y) cid) (st_conns st) = Some cn ->
  find (fun y => Nat.eqb (fst y) cid) (js_conns stj) = Some (cid, (li, cn_peer cn, cn_peer_port cn)) ->
  (li < dial_mark)%nat ->
  cn_li cn = li ->
  cn_from cn = {| t_kind := KTcpListen; t_addr := lc_addr lc; t_port := lc_tcp lc |} ->
  cn_received_support cn = received_on lc ->
  j_read data = Some jin -> parse_message data = Ok (m, rest) -> trim_left rest = [] ->
  via_domain m -> src_ok (cn_peer cn) -> branch_ok br ->
  safe1 (lc_addr lc) = true -> 0 <= lc_udp lc <= 65535 -> 0 <= lc_tcp lc <= 65535 ->
  (forall h t, alookup h (st_learned st) = Some t -> safe1 (t_addr t) = true /\ 0 <= t_port t <= 65535) ->
  proxy_step fx (pc_cfg pc) now br st (EvTcpData cid data) = Ok (st', outs) ->
  judge_C07_event pc stj (EvTcpData cid data) (map lab (filter keep outs)) closed = O.
Proof. first [ exact C07_bridge_tcp.C07_judge_bridge_tcp_step | intros; eapply C07_bridge_tcp.C07_judge_bridge_tcp_step; eassumption ]. Qed.
Theorem C07_stamp : forall peer port m pre h post v rest,
  m_headers m = pre ++ h :: post -> nomatch VIA pre -> same_header (h_name h) VIA = true ->
  hval_vias (h_val h) = Some (v :: rest) ->
  s_set_received peer port m =
    ({| m_start := m_start m;
        m_headers := pre ++ {| h_name := h_name h; h_val := HVia (stamp peer port v :: rest) |} :: post;
        m_body := m_body m |}, Ok tt).
Proof. first [ exact C07.C07_stamp | intros; eapply C07.C07_stamp; eassumption ]. Qed.
Theorem C07_stamp_params : forall peer port v,
  v_params (stamp peer port v) =
    (if kv_has (s2b "rport") (kv_set (s2b "received") peer (v_params v))
     then kv_set (s2b "rport") (itoa port) (kv_set (s2b "received") peer (v_params v))
     else kv_set (s2b "received") peer (v_params v)) /\
  v_name (stamp peer port v) = v_name v /\ v_version (stamp peer port v) = v_version v /\
  v_transport (stamp peer port v) = v_transport v /\ v_host (stamp peer port v) = v_host v /\
  v_port (stamp peer port v) = v_port v.
Proof. first [ exact C07.C07_stamp_params | intros; eapply C07.C07_stamp_params; eassumption ]. Qed.
Theorem C07_kv_set_char : forall k v l,
  kv_get k (kv_set k v l) = Some v /\
  (forall k', k' <> k -> kv_get k' (kv_set k v l) = kv_get k' l) /\
  filter (fun p => negb (beq (k_key p) k)) (kv_set k v l) = filter (fun p => negb (beq (k_key p) k)) l /\
  (kv_has k l = true -> exists a p b, l = a ++ p :: b /\ k_key p = k /\ kv_get k a = None /\
                                      kv_set k v l = a ++ {| k_key := k_key p; k_val := v |} :: b) /\
  (kv_has k l = false -> kv_set k v l = l ++ [{| k_key := k; k_val := v |}]).
Proof. first [ exact C07.C07_kv_set_char | intros; eapply C07.C07_kv_set_char; eassumption ]. Qed.
Theorem C07_pipeline : forall e peer port from rs tcp m0 x x',
  is_request m0 = true ->
  process_message e peer port from rs tcp m0 x = Ok x' ->
  exists outs, x_outs x' = x_outs x ++ outs /\
               Forall (relayed_as (e_branch e) (stamp_hdrs rs peer port (via_hdrs m0))) outs.
Proof. first [ exact C07.C07_pipeline | intros; eapply C07.C07_pipeline; eassumption ]. Qed.
Theorem C07_wiring : forall lc,
  item_rs_of true lc = negb (lc_no_received lc) /\
  pa_received_support (wire_proxy lc) = negb (lc_no_received lc).
Proof. first [ exact C07.C07_wiring | intros; eapply C07.C07_wiring; eassumption ]. Qed.
Theorem C07_wiring_legacy : forall lc, item_rs_of false lc = lc_def_route lc.
Proof. first [ exact C07.C07_wiring_legacy | intros; eapply C07.C07_wiring_legacy; eassumption ]. Qed.
Theorem C07_wired_reachable : forall fx c st, fx_wiring fx = true -> reachable fx c st -> wired c (st_conns st).
Proof. first [ exact C07.C07_wired_reachable | intros; eapply C07.C07_wired_reachable; eassumption ]. Qed.
Theorem C07_step_udp : forall fx c now br st li src sport data lc m rest st' outs,
  nth_opt (c_listens c) li = Some lc -> parse_message data = Ok (m, rest) -> is_request m = true ->
  proxy_step fx c now br st (EvUdp li src sport data) = Ok (st', outs) ->
  Forall (relayed_as br (stamp_hdrs (item_rs_of (fx_wiring fx) lc) src sport (via_hdrs m))) outs.
Proof. first [ exact C07.C07_step_udp | intros; eapply C07.C07_step_udp; eassumption ]. Qed.
Theorem C07_step_tcp : forall fx c now br st cid data cn lc st' outs,
  find (fun x => Nat.eqb (cn_id x) cid) (st_conns st) = Some cn ->
  nth_opt (c_listens c) (cn_li cn) = Some lc ->
  proxy_step fx c now br st (EvTcpData cid data) = Ok (st', outs) ->
  exists oss, outs = List.concat oss /\
    Forall2 (fun m os => is_request m = true ->
               Forall (relayed_as br (stamp_hdrs (cn_received_support cn) (cn_peer cn) (cn_peer_port cn) (via_hdrs m))) os)
            (firstn (List.length oss) (parse_stream (S (List.length data)) data)) oss.
Proof. first [ exact C07.C07_step_tcp | intros; eapply C07.C07_step_tcp; eassumption ]. Qed.
Theorem C07_judge_bridge_udp :
  forall (pc : proxy_case) (st : jstate) (fx : fixes) (now : Z) (br : bytes) (li : nat) (lc : listen_cfg)
         (src : bytes) (sport : Z) (data : bytes) (jin : jmsg) (m : message) (rest : bytes)
         (x x' : ctx) (pre : list output) (keep : output -> bool) (closed : list nat),
  let c := pc_cfg pc in
  let e := mk_env fx c (item_rs_of (fx_wiring fx)) li lc now br in
  fx_wiring fx = true ->
  nth_opt (c_listens c) li = Some lc ->
  j_read data = Some jin -> parse_message data = Ok (m, rest) ->
  via_domain m ->
  src_ok src -> branch_ok br ->
  safe1 (lc_addr lc) = true -> 0 <= lc_udp lc <= 65535 -> 0 <= lc_tcp lc <= 65535 ->
  (forall h t, alookup h (x_learned x) = Some t -> safe1 (t_addr t) = true /\ 0 <= t_port t <= 65535) ->
  process_message e src sport {| t_kind := KUdp; t_addr := lc_addr lc; t_port := lc_udp lc |}
                  (e_item_rs e) None m x = Ok x' ->
  x_outs x' = x_outs x ++ pre ->
  judge_C07_event pc st (EvUdp li src sport data) (map lab (filter keep pre)) closed = O.
Proof. first [ exact C07_bridge.C07_judge_bridge_udp | intros; eapply C07_bridge.C07_judge_bridge_udp; eassumption ]. Qed.
Theorem C07_judge_bridge_step :
  forall (pc : proxy_case) (stj : jstate) (fx : fixes) (now : Z) (br : bytes) (st : state) (li : nat)
         (lc : listen_cfg) (src : bytes) (sport : Z) (data : bytes) (jin : jmsg) (m : message) (rest : bytes)
         (st' : state) (outs : list output) (keep : output -> bool) (closed : list nat),
  fx_wiring fx = true -> nth_opt (c_listens (pc_cfg pc)) li = Some lc ->
  j_read data = Some jin -> parse_message data = Ok (m, rest) ->
  via_domain m -> src_ok src -> branch_ok br ->
  safe1 (lc_addr lc) = true -> 0 <= lc_udp lc <= 65535 -> 0 <= lc_tcp lc <= 65535 ->
  (forall h t, alookup h (st_learned st) = Some t -> safe1 (t_addr t) = true /\ 0 <= t_port t <= 65535) ->
  proxy_step fx (pc_cfg pc) now br st (EvUdp li src sport data) = Ok (st', outs) ->
  judge_C07_event pc stj (EvUdp li src sport data) (map lab (filter keep outs)) closed = O.
Proof. first [ exact C07_bridge.C07_judge_bridge_step | intros; eapply C07_bridge.C07_judge_bridge_step; eassumption ]. Qed.
End P_C07.

(* ------------------------------------------------------------------ C13 *)
From Model Require Import Bytes Wire Uri Hdr Message Msg StaticRoute RoundRobin Pins Proxy RunProxy SpecC14 SpecProxy SpecProxy2.
From Model.proofs Require C06 C13 C13_bridge C13_bridge_tcp.
Section P_C13.
Import C06 C13 C13_bridge C13_bridge_tcp.
Theorem C13_judge_bridge_tcp_msg :
  forall pc stj cid li lc cn data closed jin m rest e x x',
  nth_opt (c_listens (pc_cfg pc)) li = Some lc -> e_cfg e = pc_cfg pc -> e_lc e = lc ->
  find (fun x => Nat.eqb (fst x) cid) (js_conns stj) = Some (cid, (li, cn_peer cn, cn_peer_port cn)) ->
  (li < dial_mark)%nat ->
  cn_li cn = li -> cn_id cn = cid ->
  cn_from cn = {| t_kind := KTcpListen; t_addr := lc_addr lc; t_port := lc_tcp lc |} ->
  j_read data = Some jin -> parse_message data = Ok (m, rest) -> trim_left rest = [] ->
  is_request m = true ->
  route_domain_in (RS m) ->
  B7.via_domain m -> B7.src_ok (cn_peer cn) -> B7.branch_ok (e_branch e) ->
  safe1 (lc_addr lc) = true -> (0 <= lc_udp lc <= 65535)%Z -> (0 <= lc_tcp lc <= 65535)%Z ->
  (forall h t, alookup h (x_learned x) = Some t -> safe1 (t_addr t) = true /\ (0 <= t_port t <= 65535)%Z) ->
  process_message e (cn_peer cn) (cn_peer_port cn) (cn_from cn) (cn_received_support cn) (Some (cn_id cn)) m x = Ok x' ->
  exists pre, x_outs x' = x_outs x ++ pre /\ (msg_count pre <= 1)%nat /\
    forall vis, judge_C13_event pc stj (EvTcpData cid data) (map labelled (filter vis pre)) closed = 0%nat.
Proof. first [ exact C13_bridge_tcp.C13_judge_bridge_tcp_msg | intros; eapply C13_bridge_tcp.C13_judge_bridge_tcp_msg; eassumption ]. Qed.
Theorem C13_judge_bridge_tcp_step :
  forall pc stj fx now br st st' outs cid li lc cn data closed jin m rest,
  nth_opt (c_listens (pc_cfg pc)) li = Some lc ->
  find (fun x => Nat.eqb (fst x) cid) (js_conns stj) = Some (cid, (li, cn_peer cn, cn_peer_port cn)) ->
  (li < dial_mark)%nat ->
  find (fun x => Nat.eqb (cn_id x) cid) (st_conns st) = Some cn ->
  cn_li cn = li ->
  cn_from cn = {| t_kind := KTcpListen; t_addr := lc_addr lc; t_port := lc_tcp lc |} ->
  j_read data = Some jin -> parse_message data = Ok (m, rest) -> trim_left rest = [] ->
  is_request m = true ->
  route_domain_in (RS m) ->
  B7.via_domain m -> B7.src_ok (cn_peer cn) -> B7.branch_ok br ->
  safe1 (lc_addr lc) = true -> (0 <= lc_udp lc <= 65535)%Z -> (0 <= lc_tcp lc <= 65535)%Z ->
  (forall h t, alookup h (st_learned st) = Some t -> safe1 (t_addr t) = true /\ (0 <= t_port t <= 65535)%Z) ->
  proxy_step fx (pc_cfg pc) now br st (EvTcpData cid data) = Ok (st', outs) ->
  forall vis, judge_C13_event pc stj (EvTcpData cid data) (map labelled (filter vis outs)) closed = 0%nat.
Proof. first [ exact C13_bridge_tcp.C13_judge_bridge_tcp_step | intros; eapply C13_bridge_tcp.C13_judge_bridge_tcp_step; eassumption ]. Qed.
Theorem C13_route_headers : forall e peer peer_port from rs tcp m0 x x',
  is_request m0 = true ->
  process_message e peer peer_port from rs tcp m0 x = Ok x' ->
  exists extra, x_outs x' = x_outs x ++ extra /\ (msg_count extra <= 1)%nat /\
    forall o, In o extra -> is_msg o = true ->
      exists mo, snd o = write_message mo /\
                 routed (fun hs => step_next (c_keep_next_hop (e_cfg e)) (step_own (e_cfg e) from hs)) m0 mo.
Proof. first [ exact C13_bridge.C13_route_headers | intros; eapply C13_bridge.C13_route_headers; eassumption ]. Qed.
Theorem C13_judge_bridge_udp :
  forall pc st li lc src sport data closed jin m rest e rs x x',
  nth_opt (c_listens (pc_cfg pc)) li = Some lc -> e_cfg e = pc_cfg pc -> e_lc e = lc ->
  j_read data = Some jin -> parse_message data = Ok (m, rest) ->
  is_request m = true ->
  route_domain_in (RS m) ->
  B7.via_domain m -> B7.src_ok src -> B7.branch_ok (e_branch e) ->
  safe1 (lc_addr lc) = true -> (0 <= lc_udp lc <= 65535)%Z -> (0 <= lc_tcp lc <= 65535)%Z ->
  (forall h t, alookup h (x_learned x) = Some t -> safe1 (t_addr t) = true /\ (0 <= t_port t <= 65535)%Z) ->
  process_message e src sport (udp_transport lc) rs None m x = Ok x' ->
  exists pre, x_outs x' = x_outs x ++ pre /\ (msg_count pre <= 1)%nat /\
    forall vis, judge_C13_event pc st (EvUdp li src sport data) (map labelled (filter vis pre)) closed = 0%nat.
Proof. first [ exact C13_bridge.C13_judge_bridge_udp | intros; eapply C13_bridge.C13_judge_bridge_udp; eassumption ]. Qed.
Theorem C13_judge_bridge_step :
  forall pc stj fx now br st st' outs li lc src sport data closed jin m rest,
  nth_opt (c_listens (pc_cfg pc)) li = Some lc ->
  j_read data = Some jin -> parse_message data = Ok (m, rest) ->
  is_request m = true ->
  route_domain_in (RS m) ->
  B7.via_domain m -> B7.src_ok src -> B7.branch_ok br ->
  safe1 (lc_addr lc) = true -> (0 <= lc_udp lc <= 65535)%Z -> (0 <= lc_tcp lc <= 65535)%Z ->
  (forall h t, alookup h (st_learned st) = Some t -> safe1 (t_addr t) = true /\ (0 <= t_port t <= 65535)%Z) ->
  proxy_step fx (pc_cfg pc) now br st (EvUdp li src sport data) = Ok (st', outs) ->
  forall vis, judge_C13_event pc stj (EvUdp li src sport data) (map labelled (filter vis outs)) closed = 0%nat.
Proof. first [ exact C13_bridge.C13_judge_bridge_step | intros; eapply C13_bridge.C13_judge_bridge_step; eassumption ]. Qed.
Theorem C13_own_popped_iff : forall c from m,
  route_view (fst (mtry (try_remove_top_route c from) m)) =
  match route_view m with
  | EDec e1 :: rest => if designates c from e1 then rest else route_view m
  | _ => route_view m
  end.
Proof. first [ exact C13.try_remove_top_route_pops_iff_own | intros; eapply C13.try_remove_top_route_pops_iff_own; eassumption ]. Qed.
Theorem C13_next_hop_popped_iff_not_keep : forall keep m,
  match route_view m with
  | EDec rp :: rest =>
      route_view (fst (next_hop_by_route keep m)) = (if keep then EDec rp :: rest else rest) /\
      snd (next_hop_by_route keep m) =
        match na_addr (r_addr rp) with
        | ASip u => Ok (u_host u, sip_uri_get_port u, sip_uri_transport u)
        | AAbs _ => Err
        end
  | _ => route_view (fst (next_hop_by_route keep m)) = route_view m /\ is_ok (snd (next_hop_by_route keep m)) = false
  end.
Proof. first [ exact C13.next_hop_by_route_pops_iff_not_keep | intros; eapply C13.next_hop_by_route_pops_iff_not_keep; eassumption ]. Qed.
Theorem C13_route : forall e peer peer_port from rs tcp m0 x x',
  is_request m0 = true ->
  process_message e peer peer_port from rs tcp m0 x = Ok x' ->
  exists extra, x_outs x' = x_outs x ++ extra /\ (msg_count extra <= 1)%nat /\
    forall o, In o extra -> is_msg o = true ->
      exists mo, snd o = write_message mo /\
                 route_view mo = skipn (route_consumed (e_cfg e) from (c_keep_next_hop (e_cfg e)) (route_view m0))
                                       (route_view m0).
Proof. first [ exact C13.C13_route | intros; eapply C13.C13_route; eassumption ]. Qed.
Theorem C13_route_decoded : forall e peer peer_port from rs tcp m0 x x' entries,
  is_request m0 = true ->
  route_view m0 = map EDec entries ->
  process_message e peer peer_port from rs tcp m0 x = Ok x' ->
  let own := own_of (e_cfg e) from entries in
  let remaining := if own then tl entries else entries in
  let k := ((if own then 1 else 0) +
            (match remaining with _ :: _ => if c_keep_next_hop (e_cfg e) then 0 else 1 | [] => 0 end))%nat in
  exists extra, x_outs x' = x_outs x ++ extra /\ (msg_count extra <= 1)%nat /\
    forall o, In o extra -> is_msg o = true ->
      exists mo, snd o = write_message mo /\ route_view mo = map EDec (skipn k entries).
Proof. first [ exact C13.C13_route_decoded | intros; eapply C13.C13_route_decoded; eassumption ]. Qed.
Theorem C13_route_view_grammar : forall l, l <> [] -> forallb wf_relem l = true ->
  hval_entries (HRaw (rp_route l)) = map EDec (map C14_hdr.embed_relem l).
Proof. first [ exact C13.route_view_grammar | intros; eapply C13.route_view_grammar; eassumption ]. Qed.
Theorem C13_route_header_text : forall l, forallb wf_relem l = true ->
  hval_print (HRoute (map C14_hdr.embed_relem l)) = rp_route l.
Proof. first [ exact C13.route_header_text | intros; eapply C13.route_header_text; eassumption ]. Qed.
Theorem C13_keep_setting_decides : forall setting env, setting <> [] ->
  to_keep_next_hop_route setting env = truthy setting.
Proof. first [ exact C13.C13_keep_setting_decides | intros; eapply C13.C13_keep_setting_decides; eassumption ]. Qed.
Theorem C13_keep_env_default : forall env, to_keep_next_hop_route [] env = truthy env.
Proof. first [ exact C13.C13_keep_env_default | intros; eapply C13.C13_keep_env_default; eassumption ]. Qed.
End P_C13.
