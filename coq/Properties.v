(* Properties.v — ONLY the property theorems: statement, [exact] of the lemma proved in
   proofs/, nothing else.  tools/lib.py runs Print Assumptions on every theorem named Cxx_*. *)
From Coq Require Import List Ascii String ZArith Bool.
From Model Require Import Bytes Glob StaticRoute Spec Run.
Import ListNotations.
