(* Properties.v — ONLY the property theorems: the statement, closed by [exact] of the lemma
   proved in proofs/, nothing else.  tools/lib.py runs Print Assumptions on every theorem
   named Cxx_* and counts them as the proof obligations of property Cxx. *)
From Coq Require Import List Ascii String ZArith Bool Permutation.
From Model Require Import Bytes Glob StaticRoute Spec Run.
From Model.proofs Require C18.
Import ListNotations.

(* ------------------------------------------------------------------ C18 *)
(* the executable matcher decides "'*' = any sequence, every other character = itself" *)
Theorem C18_glob_correct : forall p s, glob p s = true <-> Glob p s.
Proof. exact C18.glob_correct. Qed.

(* fixed precedence: literal entry, else a matching wildcard entry, else default, else none —
   for every table and every host *)
Theorem C18_precedence : forall t host,
  match find_route t host with
  | Some it =>
      alookup host t = Some it
      \/ (alookup host t = None /\ exists d, In (d, it) t /\ Glob d host)
      \/ (alookup host t = None /\ (forall d it', In (d, it') t -> ~ Glob d host)
          /\ alookup (s2b "default") t = Some it)
  | None => alookup host t = None /\ (forall d it', In (d, it') t -> ~ Glob d host)
            /\ alookup (s2b "default") t = None
  end.
Proof. exact C18.find_route_spec. Qed.

(* the same, against the independent judge of Spec.v that reads the configuration itself
   (later entry for a dest replaces the earlier; invalid next hops are skipped) *)
Theorem C18_judged : forall cfg host,
  judge_C18 cfg host [option_map C18.ans_of (find_route (build_table cfg) host)] = true.
Proof. exact C18.find_route_judged. Qed.

(* stable answer: the result does not depend on the order in which the runtime enumerates
   the Go map [m]; and the list model used everywhere else is that Go-shaped function *)
Theorem C18_stable : forall cfg m host,
  Permutation (build_table cfg) m ->
  find_route_go m (map fst (build_table cfg)) host = find_route (build_table cfg) host.
Proof. exact C18.find_route_go_build_table. Qed.

(* the pre-fix map-order scan was not stable (computed witness) *)
Theorem C18_legacy_unstable_refuted :
  exists t o1 o2 host, Permutation o1 t /\ Permutation o2 t /\
     find_route_legacy o1 t host <> find_route_legacy o2 t host.
Proof. exact C18.find_route_legacy_unstable. Qed.

(* host:port yields that port; no port yields 5060, or 5061 for tls in any letter case *)
Theorem C18_port_default : forall proto dest h, ~ In ":"%char h ->
  new_pre_route_item proto dest h =
    Some {| ri_proto := proto; ri_dest := dest; ri_host := h;
            ri_port := if equal_fold (s2b "tls") proto then 5061 else 5060 |}.
Proof. exact C18.nexthop_no_port. Qed.
Theorem C18_port_explicit : forall proto dest h p, (0 <= p <= int_max)%Z ->
  new_pre_route_item proto dest (h ++ ":"%char :: itoa p) =
    Some {| ri_proto := proto; ri_dest := dest; ri_host := h; ri_port := p |}.
Proof. exact C18.nexthop_with_port. Qed.

(* ------------------------------------------------------------------ C05 *)
From Model Require Import RoundRobin SpecC05.
From Model.proofs Require C05.

(* every history in the domain (an address is never added while present): the outputs of the
   model satisfy the independent judge — member at that moment, None iff empty, every window of
   k dispatches between membership changes hits k different backends, removal flags, final set *)
Theorem C05_judged : forall ops, rr_domain ops = true ->
  let '(s, outs) := rr_run rr_init ops in judge_C05 ops outs (rr_backends s) = true.
Proof. exact C05.C05_judged. Qed.

Theorem C05_member : forall s, List.length (rr_backends s) <> 0%nat ->
  exists b, snd (rr_dispatch s) = Some b /\ In b (rr_backends s) /\
            rr_backends (fst (rr_dispatch s)) = rr_backends s /\
            rr_map (fst (rr_dispatch s)) = rr_map s.
Proof. exact C05.rr_member. Qed.

Theorem C05_empty_dropped : forall s, List.length (rr_backends s) = 0%nat -> rr_dispatch s = (s, None).
Proof. exact C05.rr_member_empty. Qed.

(* any k consecutive dispatches over k backends reach each exactly once — from ANY state,
   whatever the index is (it may exceed k after a removal) *)
Theorem C05_window : forall s, List.length (rr_backends s) <> 0%nat ->
  Permutation (snd (C05.rr_dispatches s (List.length (rr_backends s)))) (map Some (rr_backends s)) /\
  rr_backends (fst (C05.rr_dispatches s (List.length (rr_backends s)))) = rr_backends s.
Proof. exact C05.rr_window. Qed.

(* after N dispatches every backend has received floor(N/k) or floor(N/k)+1 *)
Theorem C05_counts : forall s N b, NoDup (rr_backends s) -> In b (rr_backends s) ->
  let c := count_occ C05.obytes_dec (snd (C05.rr_dispatches s N)) (Some b) in
  c = (N / List.length (rr_backends s))%nat \/ c = (N / List.length (rr_backends s) + 1)%nat.
Proof. exact C05.rr_counts. Qed.

Theorem C05_removed_silent : forall s a ops, C05.rr_inv s ->
  Forall (fun o => o <> RAdd a) ops ->
  ~ In (OSent (Some a)) (snd (rr_run (fst (rr_remove a s)) ops)).
Proof. exact C05.rr_removed_silent. Qed.

Theorem C05_added_joins : forall s a,
  let outs := snd (C05.rr_dispatches (rr_add a s) (List.length (rr_backends s) + 1)) in
  In (Some a) outs /\ forall b, In b (rr_backends s) -> In (Some b) outs.
Proof. exact C05.rr_added_joins. Qed.

(* schedules: every lock region one atomic step, ANY interleaving of dispatchers and
   membership changes: no division by zero / index out of range, and every delivery goes to a
   backend that is registered at the moment it is selected *)
Theorem C05_schedules_safe : forall ops,
  rr_srun {| ss_rr := rr_init; ss_threads := [] |} ops <> Panic /\
  exists st' outs,
    rr_srun {| ss_rr := rr_init; ss_threads := [] |} ops = Ok (st', outs) /\
    forall k tid b, nth_error outs k = Some (SDelivered tid b) ->
      exists stk, rr_srun {| ss_rr := rr_init; ss_threads := [] |} (firstn k ops)
                    = Ok (stk, firstn k outs) /\
                  In b (rr_backends (ss_rr stk)).
Proof. exact C05.C05_schedules_safe. Qed.

(* ------------------------------------------------------------------ C15 *)
From Model Require Import Pins SpecC15.
From Model.proofs Require C15.

Theorem C15_judged : forall timeout_s ops, pins_domain timeout_s ops = true ->
  judge_C15 timeout_s ops (snd (pins_run (0%Z, pins_new timeout_s 0%Z) ops)) = true.
Proof. exact C15.C15_judged. Qed.

(* honoured for max(timeout, Expires): at every instant strictly before the lifetime elapsed *)
Theorem C15_honoured : forall ts pre k b e mid,
  pins_domain ts (pre ++ PAdd k b e :: mid) = true ->
  existsb (C15.touches k) mid = false ->
  (C15.elapsed mid < c15_ns (Z.max ts e))%Z ->
  let st := C15.after ts (pre ++ PAdd k b e :: mid) in
  snd (pins_get (fst st) k (snd st)) = Some b.
Proof. exact C15.C15_honoured. Qed.

(* never at or after it *)
Theorem C15_never_after : forall ts pre k b e mid,
  pins_domain ts (pre ++ PAdd k b e :: mid) = true ->
  existsb (C15.touches k) mid = false ->
  (c15_ns (Z.max ts e) <= C15.elapsed mid)%Z ->
  let st := C15.after ts (pre ++ PAdd k b e :: mid) in
  snd (pins_get (fst st) k (snd st)) = None.
Proof. exact C15.C15_never_after. Qed.

(* dissolved on termination *)
Theorem C15_removed : forall ts pre k mid,
  existsb (C15.adds k) mid = false ->
  let st := C15.after ts (pre ++ PRemove k :: mid) in
  snd (pins_get (fst st) k (snd st)) = None.
Proof. exact C15.C15_removed. Qed.

(* right after any pin-creating event at time t nothing that expired more than one timeout
   before t is left, whatever Expires values were seen *)
Theorem C15_swept : forall ts pre k b e,
  pins_domain ts (pre ++ [PAdd k b e]) = true -> C15.swept (C15.after ts (pre ++ [PAdd k b e])).
Proof. exact C15.C15_swept. Qed.

Theorem C15_bounded : forall ts pre k b e,
  let ops := pre ++ [PAdd k b e] in
  pins_domain ts ops = true ->
  let t := fst (C15.after ts ops) in
  fst (c15_after ts ops) = t /\
  (List.length (p_tab (snd (C15.after ts ops))) <=
   List.length (filter (c15_recent ts t) (snd (c15_after ts ops))))%nat.
Proof. exact C15.C15_bounded. Qed.

(* the pre-fix code (nextCleanTime = expiry of the entry just added) violates it *)
Theorem C15_legacy_refuted :
  exists ts pre k b e,
    pins_domain ts (pre ++ [PAdd k b e]) = true /\
    ~ C15.swept (C15.legacy_after ts (pre ++ [PAdd k b e])) /\
    judge_C15 ts (pre ++ [PAdd k b e])
              (snd (C15.legacy_run (0%Z, pins_new ts 0%Z) (pre ++ [PAdd k b e]))) = false.
Proof. exact C15.C15_legacy_refuted. Qed.

(* ------------------------------------------------------------------ C19 *)
From Model Require Import Resolver SpecC19.
From Model.proofs Require C19.

Theorem C19_judged : forall port os,
  c19_domain os = true -> judge_C19 port os (C19.resolver_obs port (rentry_init, rr_init) os) = true.
Proof. exact C19.C19_judged. Qed.

(* what the extracted runner prints is exactly that observation *)
Theorem C19_runner_is_obs : forall port os st,
  resolver_run port st os = flat_map C19.e_c19_obs (C19.resolver_obs port st os).
Proof. exact C19.resolver_run_obs. Qed.

Theorem C19_tracks : forall port e s A e' s' outs,
  C19.Inv port (e, s) -> NoDup A ->
  resolver_step port (e, s) (ROk A) = ((e', s'), outs) ->
  C19.Inv port (e', s') /\
  re_addrs e' = A /\ re_failed e' = 0%nat /\
  NoDup (rr_backends s') /\
  Permutation (rr_backends s') (map (fun ip => create_host_port ip port) A) /\
  outs = repeat (ORemoved true) (List.length (str_array_sub (re_addrs e) A)) /\
  (forall ip, In ip (re_addrs e) -> ~ In ip A ->
     ~ In (create_host_port ip port) (rr_backends s') /\ ~ In (create_host_port ip port) (rr_map s')) /\
  (forall ip, In ip A ->
     In (create_host_port ip port) (rr_backends s') /\ In (create_host_port ip port) (rr_map s')).
Proof. exact C19.C19_tracks. Qed.

Theorem C19_tolerates : forall port e s,
  (re_failed e < 3)%nat \/ re_addrs e = [] ->
  resolver_step port (e, s) RFail =
  (({| re_addrs := re_addrs e; re_failed := S (re_failed e) |}, s), []).
Proof. exact C19.C19_tolerates. Qed.

Theorem C19_fourth_empties : forall port e s,
  C19.Inv port (e, s) -> (3 <= re_failed e)%nat -> re_addrs e <> [] ->
  exists s',
    resolver_step port (e, s) RFail =
      (({| re_addrs := []; re_failed := 0 |}, s'),
       repeat (ORemoved true) (List.length (re_addrs e))) /\
    rr_backends s' = [] /\ rr_map s' = [] /\
    C19.Inv port ({| re_addrs := []; re_failed := 0 |}, s').
Proof. exact C19.C19_fourth_empties. Qed.

Theorem C19_success_resets : forall port e s A,
  fst (fst (resolver_step port (e, s) (ROk A))) = {| re_addrs := A; re_failed := 0 |}.
Proof. exact C19.C19_success_resets. Qed.

Theorem C19_invariant_reachable : forall port os,
  c19_domain os = true -> C19.Inv port (C19.resolver_states port (rentry_init, rr_init) os).
Proof. exact C19.C19_inv_reachable. Qed.

(* ------------------------------------------------------------------ C14 *)
From Model Require Import Wire Uri Hdr Codec SpecC14.
From Model.proofs Require C14_uri C14_hdr C14_via.

(* for every well-formed abstract value (no size bound) the decoder extracts exactly what the
   reference text denotes (components and accessors), the encoder gives the text back byte for
   byte, and decoding the encoding and encoding again is stable: [codec_obs] is that whole
   observation, [expected_obs] what an exact lossless codec must produce *)
Theorem C14_sipuri : forall u, wf_sipuri u = true ->
  codec_obs parse_sip_uri sip_uri_print obs_sip_uri (rp_sipuri u) = expected_obs (rp_sipuri u) (x_sipuri u).
Proof. exact C14_uri.C14_sipuri. Qed.
Theorem C14_addrspec : forall a, wf_addr a = true ->
  codec_obs parse_addr_spec addr_spec_print obs_addr_spec (rp_addr a) = expected_obs (rp_addr a) (x_addr a).
Proof. exact C14_uri.C14_addrspec. Qed.
Theorem C14_nameaddr : forall n, wf_nameaddr n = true ->
  codec_obs parse_name_addr name_addr_print obs_name_addr (rp_nameaddr n) = expected_obs (rp_nameaddr n) (x_nameaddr n).
Proof. exact C14_uri.C14_nameaddr. Qed.
Theorem C14_route : forall l, l <> [] -> forallb wf_relem l = true ->
  codec_obs parse_route route_print (e_list obs_route_param) (rp_route l) = expected_obs (rp_route l) (e_list x_relem l).
Proof. exact C14_hdr.C14_route. Qed.
Theorem C14_recordroute : forall l, l <> [] -> forallb wf_relem l = true ->
  codec_obs parse_record_route route_print (e_list obs_route_param) (rp_route l) = expected_obs (rp_route l) (e_list x_relem l).
Proof. exact C14_hdr.C14_recordroute. Qed.
Theorem C14_fromto : forall f, wf_fromto f = true ->
  codec_obs parse_fromto fromto_print obs_fromto (rp_fromto f) = expected_obs (rp_fromto f) (x_fromto f).
Proof. exact C14_hdr.C14_fromto. Qed.
Theorem C14_via : forall l, l <> [] -> forallb wf_via l = true ->
  codec_obs parse_via via_print (e_list obs_via_param) (rp_via l) = expected_obs (rp_via l) (e_list x_via1 l).
Proof. exact C14_via.C14_via. Qed.
Theorem C14_cseq : forall c, wf_cseq c = true ->
  codec_obs parse_cseq cseq_print obs_cseq (rp_cseq c) = expected_obs (rp_cseq c) (x_cseq c).
Proof. exact C14_via.C14_cseq. Qed.
(* the judge the check applies to implementation observations accepts exactly that *)
Theorem C14_judge_exact : forall e o, o = e -> judge_C14 e o = true.
Proof. exact C14_uri.judge_C14_of_eq. Qed.

(* the pre-fix decoders/encoders violate it (computed witnesses) *)
Theorem C14_sipuri_legacy_refuted :
  exists u, wf_sipuri u = true /\ rp_sipuri u = s2b "sip:h;foo;lr;x=1" /\
    parse_sip_uri_legacy (rp_sipuri u) <> Ok (C14_uri.embed_sipuri u) /\
    codec_obs parse_sip_uri_legacy sip_uri_print obs_sip_uri (rp_sipuri u) <> expected_obs (rp_sipuri u) (x_sipuri u).
Proof. exact C14_uri.C14_sipuri_legacy_refuted. Qed.
Theorem C14_route_legacy_refuted :
  exists r, wf_relem r = true /\ rp_relem r = s2b "<sip:h;lr>;a=1;b" /\
    route_param_print_legacy (C14_hdr.embed_relem r) <> rp_relem r /\
    parse_route_param (route_param_print_legacy (C14_hdr.embed_relem r)) <> Ok (C14_hdr.embed_relem r).
Proof. exact C14_hdr.C14_route_legacy_refuted. Qed.
Theorem C14_fromto_legacy_refuted :
  exists f, wf_fromto f = true /\ rp_fromto f = s2b "tel:+1;tag=x" /\
    parse_fromto_legacy (rp_fromto f) <> Ok (C14_hdr.embed_fromto f) /\
    codec_obs parse_fromto_legacy fromto_print obs_fromto (rp_fromto f) <> expected_obs (rp_fromto f) (x_fromto f).
Proof. exact C14_hdr.C14_fromto_legacy_refuted. Qed.
(* the two tracked known findings, outside the well-formedness domain *)
Theorem C14_ipv6_refuted :
  exists text u, text = s2b "sip:[::1]:5060" /\ parse_sip_uri text = Ok u /\
    u_host u = s2b "[" /\ u_port u = 0%Z /\ sip_uri_print u = s2b "sip:[" /\ sip_uri_print u <> text.
Proof. exact C14_uri.C14_ipv6_refuted. Qed.
Theorem C14_user_semicolon_refuted :
  exists text u, text = s2b "sip:a;b@h:5070" /\ parse_sip_uri text = Ok u /\
    u_host u = s2b "a" /\ u_user u = [] /\ u_port u = 0%Z /\ sip_uri_get_port u = 5060%Z /\
    u_params u = [ {| k_key := s2b "b@h:5070"; k_val := [] |} ] /\ sip_uri_print u = text.
Proof. exact C14_uri.C14_user_semicolon_refuted. Qed.

(* ------------------------------------------------------------------ C16 *)
From Model Require Import Message SpecC16.
From Model.proofs Require C16.

(* direction independence, for ALL byte strings (equal URIs and equal tags included) *)
Theorem C16_symmetric : forall c t1 a1 t2 a2, dialog_string c t1 a1 t2 a2 = dialog_string c t2 a2 t1 a1.
Proof. exact C16.C16_symmetric. Qed.
Theorem C16_legacy_refuted : exists c t1 a t2,
  t1 <> t2 /\ dialog_string_legacy c t1 a t2 a <> dialog_string_legacy c t2 a t1 a.
Proof. exact C16.C16_legacy_refuted. Qed.
(* same Call-ID and the same two (tag, URI) halves, whichever is in From: same identifier *)
Theorem C16_same_id : forall a b, c16_same a b = true -> C16.c16_id a = C16.c16_id b.
Proof. exact C16.C16_same_id. Qed.
(* discrimination: the Call-ID unconditionally; one tag or one URI under the separator
   hypothesis sep_ok (a boolean, evaluated on every generated case) *)
Theorem C16_callid_discriminates : forall c c' t1 a1 t2 a2,
  c <> c' -> dialog_string c t1 a1 t2 a2 <> dialog_string c' t1 a1 t2 a2.
Proof. exact C16.C16_callid_discriminates. Qed.
Theorem C16_discriminates : forall a b,
  cm_has a = true -> cm_has b = true -> c16_one_change a b = true -> c16_same a b = false ->
  C16.sep_ok a b = true -> C16.c16_id a <> C16.c16_id b.
Proof. exact C16.C16_discriminates. Qed.
(* sep_ok holds whenever the two tags of each message differ and are '-'-free (any URIs) *)
Theorem C16_sep_ok_realistic : forall a b,
  c16_one_change a b = true -> C16.half_ok a = true -> C16.half_ok b = true -> C16.sep_ok a b = true.
Proof. exact C16.half_ok_sep_ok. Qed.
Theorem C16_half_ok_distinct_tags : forall m,
  ~ In "-"%char (cm_ta m) -> ~ In "-"%char (cm_tb m) -> cm_ta m <> cm_tb m -> C16.half_ok m = true.
Proof. exact C16.half_ok_distinct_tags. Qed.
(* outside it the identifier is not discriminating: the tracked finding K3 *)
Theorem C16_K3_refuted : exists a b,
  cm_has a = true /\ cm_has b = true /\
  cm_callid a = cm_callid b /\ cm_ta a = cm_ta b /\ cm_tb a = cm_tb b /\ cm_ub a = cm_ub b /\ cm_ua a <> cm_ua b /\
  c16_one_change a b = true /\ c16_same a b = false /\ C16.sep_ok a b = false /\ C16.c16_id a = C16.c16_id b.
Proof. exact C16.C16_K3_refuted. Qed.
(* the group judge accepts the model on every group in the domain *)
Theorem C16_judged : forall (ms : list c16_msg),
  (forall a b, In a ms -> In b ms -> cm_has a = true -> cm_has b = true ->
               c16_one_change a b = true -> c16_same a b = false -> C16.sep_ok a b = true) ->
  judge_C16 (map (fun m => (m, if cm_has m then Some (C16.c16_id m) else None)) ms) = None.
Proof. exact C16.C16_judged. Qed.
(* a message lacking either tag belongs to no dialog; one with both gets exactly the
   identifier of its Call-ID and halves, whatever else the headers carry *)
Theorem C16_no_tag_from : forall m m1 f, get_from m = Ok (m1, f) -> fromto_tag f = None -> get_dialog m = Err.
Proof. exact C16.C16_no_tag_from. Qed.
Theorem C16_no_tag_to : forall m m1 f m2 t,
  get_from m = Ok (m1, f) -> get_to m1 = Ok (m2, t) -> fromto_tag t = None -> get_dialog m = Err.
Proof. exact C16.C16_no_tag_to. Qed.
Theorem C16_get_dialog_inv : forall m m2 d, get_dialog m = Ok (m2, d) ->
  exists cid m1 f t ftag ttag,
    get_call_id m = Ok cid /\ get_from m = Ok (m1, f) /\ get_to m1 = Ok (m2, t) /\
    fromto_tag f = Some ftag /\ fromto_tag t = Some ttag /\
    d = dialog_string cid ftag (dialog_addr (fromto_addr_spec f)) ttag (dialog_addr (fromto_addr_spec t)).
Proof. exact C16.C16_get_dialog_inv. Qed.
Theorem C16_message_symmetric : forall m m' cid m1 f m2 t m1' f' m2' t',
  get_call_id m = Ok cid -> get_call_id m' = Ok cid ->
  get_from m = Ok (m1, f) -> get_to m1 = Ok (m2, t) ->
  get_from m' = Ok (m1', f') -> get_to m1' = Ok (m2', t') ->
  fromto_tag f' = fromto_tag t -> fromto_tag t' = fromto_tag f ->
  dialog_addr (fromto_addr_spec f') = dialog_addr (fromto_addr_spec t) ->
  dialog_addr (fromto_addr_spec t') = dialog_addr (fromto_addr_spec f) ->
  rmap snd (get_dialog m) = rmap snd (get_dialog m').
Proof. exact C16.C16_message_symmetric. Qed.
(* decorations do not matter: the half a From/To value contributes is (tag, URI core) of
   the abstract value, whatever display name, URI parameters/headers, header parameters and
   name-addr/addr-spec form it was rendered with (with C14_fromto) *)
Theorem C16_half_of_rendering : forall f, wf_fromto f = true ->
  parse_fromto (rp_fromto f) = Ok (C14_hdr.embed_fromto f) /\
  fromto_tag (C14_hdr.embed_fromto f) = a_get (s2b "tag") (af_params f) /\
  dialog_addr (fromto_addr_spec (C14_hdr.embed_fromto f)) = x_dialog_addr (C14_hdr.a_ft_addr f).
Proof.
  intros f H. split; [exact (C14_hdr.parse_fromto_rp f H)|].
  split; [exact (C14_hdr.fromto_tag_embed f) | exact (C14_hdr.fromto_dialog_addr_embed f H)].
Qed.

(* ------------------------------------------------------------------ C20 *)
From Model Require Import SendFault SpecC20.
From Model.proofs Require C20.

(* every send from every well-formed state, any fault script: the trace satisfies the judge *)
Theorem C20_judged_client : forall f w, C20.fo_wf f (w_next w) ->
  let '(_, _, tr, ok) := failover_send f w in judge_C20_send tr ok = true.
Proof. exact C20.C20_judged_client. Qed.
Theorem C20_judged_backend : forall conn w, C20.b_wf conn (w_next w) ->
  let '(_, _, tr, ok) := tcp_backend_send conn w in judge_C20_send tr ok = true.
Proof. exact C20.C20_judged_backend. Qed.
(* along any sequence of sends with any per-send dial results: what the extracted runner
   prints is judged by the count-based judge that is also applied to the real code *)
Theorem C20_obs_judged_client : forall plans f w,
  C20.fo_wf f (w_next w) -> forallb judge_C20_obs (C20.client_obs plans f w) = true.
Proof. exact C20.C20_obs_judged_client_strong. Qed.
Theorem C20_obs_judged_backend : forall plans conn w,
  C20.b_wf conn (w_next w) -> forallb judge_C20_obs (C20.backend_obs plans conn w) = true.
Proof. exact C20.C20_obs_judged_backend_strong. Qed.
Theorem C20_client_obs_printed : forall plans f w,
  sendfault_client plans f w = flat_map e_obs (C20.client_obs plans f w).
Proof. exact C20.C20_client_obs_printed. Qed.
Theorem C20_backend_obs_printed : forall plans c w,
  sendfault_backend plans c w = flat_map e_obs (C20.backend_obs plans c w).
Proof. exact C20.C20_backend_obs_printed. Qed.
Theorem C20_trace_judge_implies_obs : forall next tr ok,
  C20.okwrites_below next tr -> judge_C20_send tr ok = true -> judge_C20_obs (obs_of_trace next tr ok) = true.
Proof. exact C20.C20_trace_judge_implies_obs. Qed.
(* success = the whole message written exactly once, as the last write of the call *)
Theorem C20_success_means_written : forall f w f' w' tr, failover_send f w = (f', w', tr, true) ->
  exists pre c, tr = pre ++ [EWrite c true] /\ (forall c', ~ In (EWrite c' true) pre).
Proof. exact C20.C20_success_means_written. Qed.
Theorem C20_error_means_unwritten : forall f w f' w' tr,
  failover_send f w = (f', w', tr, false) -> forall c, ~ In (EWrite c true) tr.
Proof. exact C20.C20_error_means_unwritten. Qed.
Theorem C20_no_dup : forall f w f' w' tr ok,
  failover_send f w = (f', w', tr, ok) -> (List.length (filter ev_is_okwrite tr) <= 1)%nat.
Proof. exact C20.C20_no_dup. Qed.
Theorem C20_no_dup_backend : forall conn w conn' w' tr ok,
  tcp_backend_send conn w = (conn', w', tr, ok) -> (List.length (filter ev_is_okwrite tr) <= 1)%nat.
Proof. exact C20.C20_no_dup_backend. Qed.
(* cached connection fails on write, reconnectable path available: the same call writes the
   message once on a fresh connection; later sends go straight to it *)
Theorem C20_failover : forall f w p c s rest,
  C20.w_wf w -> C20.fo_wf f (w_next w) -> fo_primary f = Some p -> tc_conn p = Some c -> C20.next_write c w = false ->
  fo_secondary f = Some {| tc_conn := None; tc_reconnectable := true |} ->
  w_dials w = Some s :: rest -> hd true s = true ->
  failover_send f w =
    ({| fo_primary := None; fo_secondary := Some {| tc_conn := Some (w_next w); tc_reconnectable := true |} |},
     C20.after_write (w_next w) (C20.after_dial (C20.after_write c w)),
     [EWrite c false; EClose c; EDial (Some (w_next w)); EWrite (w_next w) true], true)
  /\ c <> w_next w.
Proof. exact C20.C20_failover. Qed.
Theorem C20_later_direct : forall f w p c s rest,
  C20.w_wf w -> C20.fo_wf f (w_next w) -> fo_primary f = Some p -> tc_conn p = Some c -> C20.next_write c w = false ->
  fo_secondary f = Some {| tc_conn := None; tc_reconnectable := true |} ->
  w_dials w = Some s :: rest -> hd true s = true ->
  forall f' w' tr ok, failover_send f w = (f', w', tr, ok) ->
  forall w2, (w_next w' <= w_next w2)%nat ->
  forall f2 w3 tr2 ok2, failover_send f' w2 = (f2, w3, tr2, ok2) ->
  (forall e, In e tr2 -> ~ In c (C20.ev_ids e)) /\
  (exists b rest2, tr2 = EWrite (w_next w) b :: rest2) /\
  (C20.next_write (w_next w) w2 = true -> tr2 = [EWrite (w_next w) true] /\ ok2 = true /\ f2 = f').
Proof. exact C20.C20_later_direct. Qed.
(* a refusing destination yields an error after at most one dial attempt, nothing written *)
Theorem C20_refused : forall f w f' w' tr ok,
  C20.fo_wf f (w_next w) -> C20.dial_refused w -> C20.primary_id f = None -> C20.secondary_id f = None ->
  failover_send f w = (f', w', tr, ok) ->
  ok = false /\ (tr = [] \/ tr = [EDial None]) /\
  (List.length (filter ev_is_dial tr) <= 2)%nat /\ filter ev_is_write tr = [] /\
  w_conns w' = w_conns w /\ w_next w' = w_next w /\ C20.primary_id f' = None /\ C20.secondary_id f' = None.
Proof. exact C20.C20_refused. Qed.
Theorem C20_refused_backend : forall w conn' w' tr ok,
  C20.dial_refused w -> C20.dial_refused (C20.after_dial w) -> tcp_backend_send None w = (conn', w', tr, ok) ->
  ok = false /\ tr = [EDial None; EDial None] /\ conn' = None /\ w_conns w' = w_conns w /\ w_next w' = w_next w.
Proof. exact C20.C20_refused_backend. Qed.

(* ------------------------------------------------------------------ C09 *)

From Model Require Lockset Policy.
From Model.gen Require Accesses.
From Model.proofs Require C09.
(* for ALL well-formed traces (= all schedules): a trace in which every location obeys one of
   Locked / Owned / InitOnly / Handoff has no two conflicting accesses unordered by
   happens-before (program order, Rel->Acq, Fork->child, k-th Send->k-th Recv) *)
Theorem C09_lockset_sound : forall (policy : Lockset.loc -> Lockset.discipline) (tr : Lockset.trace),
  Lockset.wf_trace tr -> Lockset.disciplined policy tr -> Lockset.race_free tr.
Proof. exact Lockset.lockset_sound. Qed.

(* the literal "written only before any Fork" is an instance of InitOnly *)
Theorem C09_init_before_any_fork : forall tr l, Lockset.wf_trace tr ->
  (forall i t, Lockset.access_at tr i = Some (t, l, true) ->
     forall k t0 t1, (k < i)%nat -> nth_error tr k <> Some (Lockset.Fork t0 t1)) ->
  Lockset.obeys tr l (Lockset.InitOnly Lockset.main_thread).
Proof. exact Lockset.init_before_any_fork. Qed.

(* the table regenerated from /repo by tools/locktab on this run: every recorded access site
   obeys the discipline the policy gives its field *)
Theorem C09_discipline : forallb Policy.site_ok Accesses.accesses = true.
Proof. exact C09.C09_discipline. Qed.

(* every struct field written outside a constructor is classified by the policy *)
Theorem C09_policy_complete : forallb Policy.classified Policy.written_fields = true.
Proof. exact C09.C09_policy_complete. Qed.

(* every field the policy names exists in the package *)
Theorem C09_policy_wellformed : Policy.policy_fields_exist = true.
Proof. exact C09.C09_policy_wellformed. Qed.

(* the acquires-while-holding graph (lexical + through the call graph) has no cycle *)
Theorem C09_lock_order_acyclic : Policy.lock_order_acyclic = true.
Proof. exact C09.C09_lock_order_acyclic. Qed.

(* the cached tables (roots reaching a function, must-hold locks, transitively acquired
   mutexes, lock order) are what their definitions compute, and are closed under the call graph *)
Theorem C09_tables :
  Policy.RR = Policy.prop_iter 64%nat Accesses.calls Policy.root_init /\ Policy.RR_closed = true /\
  Policy.MH = Policy.mh_step (Policy.mh_step (Policy.mh_step (Policy.mh_step nil))) /\ Policy.MH_sound = true /\
  Policy.ACQ = Policy.prop_iter 64%nat (map Policy.swap Policy.kept_calls) Policy.acq_init /\ Policy.ACQ_closed = true /\
  Policy.ORDER = Policy.dedup_edges Policy.order_edges.
Proof. exact C09.C09_tables. Qed.

(* bridge: a well-formed trace whose memory accesses are instances of the recorded sites
   (instantiation assumptions I0..I6 of proofs/C09.v, spelled out) is race free *)
Theorem C09_bridge :
  forall (tr : Lockset.trace) (site : nat -> Accesses.access) (obj : nat -> nat)
         (loc_of : nat -> String.string -> String.string -> Lockset.loc)
         (mtx : nat -> String.string -> Lockset.mutex) (guard : nat -> nat)
         (root_of : Lockset.tid -> String.string) (owner : nat -> Lockset.tid)
         (pol : Lockset.loc -> Lockset.discipline),
    (forall l, (exists i t w, Lockset.access_at tr i = Some (t, l, w)) \/ Lockset.obeys tr l (pol l)) ->
    (forall i t l w, Lockset.access_at tr i = Some (t, l, w) ->
       In (site i) Accesses.accesses /\ Accesses.a_ctor (site i) = false /\ Accesses.a_atomic (site i) = false /\
       l = loc_of (obj i) (Accesses.a_struct (site i)) (Accesses.a_field (site i)) /\ w = Accesses.a_write (site i)) ->
    (forall i t l w, Lockset.access_at tr i = Some (t, l, w) ->
       match Policy.policy_of (Accesses.a_struct (site i)) (Accesses.a_field (site i)) with
       | Some (Policy.LockedOwn m) => pol l = Lockset.Locked (mtx (obj i) m)
       | Some (Policy.LockedBy m) => pol l = Lockset.Locked (mtx (guard (obj i)) m)
       | Some (Policy.ConfinedTo _) => pol l = Lockset.Owned (owner (obj i))
       | Some Policy.Atomic => False
       | Some Policy.InitOnly | Some (Policy.HandedOff _) | None => Lockset.obeys tr l (pol l)
       end) ->
    (forall i t l w m, Lockset.access_at tr i = Some (t, l, w) ->
       existsb (fun h => (String.eqb (Accesses.h_mutex h) m && String.eqb (Accesses.h_owner h) (Accesses.a_base (site i)))%bool)
               (Policy.held_at (site i)) = true ->
       Lockset.holds tr i t (mtx (obj i) m)) ->
    (forall i t l w m, Lockset.access_at tr i = Some (t, l, w) ->
       existsb (fun h => String.eqb (Accesses.h_mutex h) m) (Policy.held_at (site i)) = true ->
       Lockset.holds tr i t (mtx (guard (obj i)) m)) ->
    (forall i t l w, Lockset.access_at tr i = Some (t, l, w) ->
       In (root_of t) (Policy.roots_reaching (Accesses.a_func (site i)))) ->
    (forall i t l w r, Lockset.access_at tr i = Some (t, l, w) ->
       Policy.policy_of (Accesses.a_struct (site i)) (Accesses.a_field (site i)) = Some (Policy.ConfinedTo r) ->
       root_of t <> "main"%string) ->
    (forall i t l w r, Lockset.access_at tr i = Some (t, l, w) ->
       Policy.policy_of (Accesses.a_struct (site i)) (Accesses.a_field (site i)) = Some (Policy.ConfinedTo r) ->
       root_of t = r -> t = owner (obj i)) ->
    Lockset.wf_trace tr -> Lockset.race_free tr.
Proof. exact C09.bridge_race_free. Qed.

(* ------------------------------------------------------------------ C11 / C10 / C08 (decode level) *)
From Model Require Import Bufio Pool.
From Model.proofs Require C11 C10 C08_parse.
(* ================= C11 ================= *)
(* key lemma: what ReadSlice returns depends on (remaining stream, window size) only *)
Theorem C11_read_slice_abs : forall st line status rest, C11.wf st ->
  C11.slice_spec (rd_size st) (alpha st) = (line, status, rest) ->
  exists st', read_slice st = Ok (line, status, st') /\
    alpha st' = rest /\ C11.wf st' /\ rd_size st' = rd_size st /\
    (status = RsFull -> rd_live st' = [] /\ rd_pre st' = line /\ rd_err st' = false).
Proof. exact C11.read_slice_abs. Qed.

(* readLine over the concrete reader = Message.read_line over the remaining bytes *)
Theorem C11_read_line_abs : forall st, C11.wf st ->
  match index_byte LF (alpha st) with
  | Some i => exists st', read_line_c st = Ok (Some (strip_cr (firstn i (alpha st))), st') /\
                          alpha st' = skipn (S i) (alpha st) /\ C11.wf st' /\ rd_size st' = rd_size st
  | None => (exists st', read_line_c st = Ok (None, st')) \/
            (alpha st <> [] /\ exists st', read_line_c st = Ok (Some (alpha st), st') /\
                                          alpha st' = [] /\ C11.wf st' /\ rd_size st' = rd_size st)
  end.
Proof. exact C11.read_line_c_abs. Qed.

Theorem C11_framing : forall size cs, Forall C11.nonempty cs ->
  (2 * Z.of_nat (List.length (List.concat cs)) <= make_limit)%Z ->
  parse_conn size cs = parse_stream (S (List.length (List.concat cs))) (List.concat cs).
Proof. exact C11.C11_framing. Qed.

Theorem C11_segmentation_independent : forall size1 size2 cs1 cs2,
  Forall C11.nonempty cs1 -> Forall C11.nonempty cs2 -> List.concat cs1 = List.concat cs2 ->
  (2 * Z.of_nat (List.length (List.concat cs1)) <= make_limit)%Z ->
  parse_conn size1 cs1 = parse_conn size2 cs2.
Proof. exact C11.C11_segmentation_independent. Qed.

Theorem C11_exact : forall ms tail,
  Forall C11.wf_msg ms -> Forall (fun c => is_space c = true) tail ->
  parse_stream (S (List.length (C11.encode_all ms ++ tail))) (C11.encode_all ms ++ tail) = map C11.expected ms.
Proof. exact C11.C11_exact. Qed.

Theorem C11_exact_segmented : forall size cs ms tail,
  Forall C11.wf_msg ms -> Forall (fun c => is_space c = true) tail ->
  Forall C11.nonempty cs -> List.concat cs = C11.encode_all ms ++ tail ->
  (2 * Z.of_nat (List.length (List.concat cs)) <= make_limit)%Z ->
  parse_conn size cs = map C11.expected ms.
Proof. exact C11.C11_exact_segmented. Qed.

Theorem C11_legacy_refuted :
  exists size cs1 cs2, List.concat cs1 = List.concat cs2 /\ Forall C11.nonempty cs1 /\ Forall C11.nonempty cs2 /\
    C11.line_of (read_line_legacy (new_reader size cs1)) <> C11.line_of (read_line_legacy (new_reader size cs2)) /\
    C11.line_of (read_line_legacy (new_reader size cs1)) <> Some (s2b "SIP/2.0 404 Not Found") /\
    C11.line_of (read_line_c (new_reader size cs1)) = Some (s2b "SIP/2.0 404 Not Found") /\
    C11.line_of (read_line_c (new_reader size cs2)) = Some (s2b "SIP/2.0 404 Not Found").
Proof. exact C11.C11_legacy_refuted. Qed.

Theorem C11_legacy_refuted_4096 :
  fst (fst (parse_conn_legacy_full 4096%nat [C11.long_stream])) <>
    parse_stream (S (List.length C11.long_stream)) C11.long_stream /\
  parse_conn 4096%nat [C11.long_stream] = parse_stream (S (List.length C11.long_stream)) C11.long_stream /\
  List.length (parse_stream (S (List.length C11.long_stream)) C11.long_stream) = 1%nat.
Proof. exact C11.C11_legacy_refuted_4096. Qed.

(* ================= C10 ================= *)
Theorem C10_isolated : forall stale d,
  (2 * Z.of_nat (List.length stale) <= make_limit)%Z ->
  udp_parse (fst (recv stale d)) (snd (recv stale d)) = parse_bytes (firstn (List.length stale) d).
Proof. exact C10.C10_isolated. Qed.

Theorem C10_isolated_fits : forall stale d, (List.length d <= List.length stale)%nat ->
  (2 * Z.of_nat (List.length stale) <= make_limit)%Z ->
  udp_parse (fst (recv stale d)) (snd (recv stale d)) = parse_bytes d.
Proof. exact C10.C10_isolated_fits. Qed.

Theorem C10_history : forall evs u, C10.udp_wf u ->
  (2 * Z.of_nat (p_asize (u_pool u)) <= make_limit)%Z ->
  snd (udp_run udp_parse u evs) = udp_spec (p_asize (u_pool u)) (queued_dgrams u) evs.
Proof. exact C10.C10_history. Qed.

Theorem C10_short_discarded : forall d,
  match parse_bytes d with
  | Ok m => exists hdr rest, d = hdr ++ m_body m ++ rest /\
              (exists h0, hdr = h0 ++ [LF; LF] \/ hdr = h0 ++ [LF; CR; LF]) /\
              get_header_int (s2b "Content-Length") m = Ok (Z.of_nat (List.length (m_body m)))
  | Err => True
  | Panic => False
  end.
Proof. exact C10.C10_short_discarded. Qed.

Theorem C10_pool_exclusive : forall maxcap asize evs s',
  prun (new_pool maxcap asize, []) evs = Some s' -> NoDup (pool_ids s').
Proof. exact C10.C10_pool_exclusive. Qed.

Theorem C10_pool_exclusive_udp : forall maxcap asize evs,
  NoDup (udp_ids (fst (udp_run udp_parse (new_udp maxcap asize) evs))).
Proof. exact C10.C10_pool_exclusive_udp. Qed.

Theorem C10_legacy_refuted :
  parse_bytes C10.d_second = Err /\
  udp_parse (fst (recv C10.stale_buf C10.d_second)) (snd (recv C10.stale_buf C10.d_second)) = Err /\
  (exists m, udp_parse_legacy (fst (recv C10.stale_buf C10.d_second)) (snd (recv C10.stale_buf C10.d_second)) = Ok m /\
             m_body m = s2b "ABCDET-BYTES-OF-THE-EARLIER-DATAGRAM-#1!") /\
  (exists m, udp_parse_wholebuf (fst (recv C10.stale_buf C10.d_second)) (snd (recv C10.stale_buf C10.d_second)) = Ok m /\
             m_body m = s2b "ABCDET-BYTES-OF-THE-EARLIER-DATAGRAM-#1!").
Proof. exact C10.C10_legacy_refuted. Qed.

(* ================= C08 (parse part) ================= *)
Theorem C08_parse_no_panic : forall size cs, Forall C11.nonempty cs ->
  (2 * Z.of_nat (List.length (List.concat cs)) <= make_limit)%Z ->
  snd (fst (parse_conn_full size cs)) = EndErr.
Proof. exact C08_parse.C08_parse_no_panic. Qed.

Theorem C08_parse_terminates : forall size cs, Forall C11.nonempty cs ->
  (2 * Z.of_nat (List.length (List.concat cs)) <= make_limit)%Z ->
  snd (fst (parse_conn_full size cs)) <> EndFuel /\ snd (fst (parse_conn_full size cs)) <> EndPanic.
Proof. exact C08_parse.C08_parse_terminates. Qed.

Theorem C08_alloc_bounded : forall size cs, Forall C11.nonempty cs ->
  (2 * Z.of_nat (List.length (List.concat cs)) <= make_limit)%Z ->
  (snd (parse_conn_full size cs) <= 4 * Z.of_nat (List.length (List.concat cs)) + 65536)%Z.
Proof. exact C08_parse.C08_alloc_bounded. Qed.

Theorem C08_parse_no_panic_udp : forall buf n,
  (2 * Z.of_nat (List.length (firstn n buf)) <= make_limit)%Z ->
  udp_parse buf n <> Panic /\
  (snd (udp_parse_a buf n) <= 4 * Z.of_nat (List.length (firstn n buf)) + 65536)%Z.
Proof. exact C08_parse.C08_parse_no_panic_udp. Qed.

Theorem C08_legacy_refuted :
  snd (fst (parse_conn_legacy_full 4096%nat [C08_parse.absurd "4611686018427387904"])) = EndPanic /\
  udp_parse_legacy (C08_parse.absurd "4611686018427387904") 68%nat = Panic /\
  snd (parse_conn_legacy_full 4096%nat [C08_parse.absurd "1073741824"]) = 1073741824%Z /\
  parse_conn_full 4096%nat [C08_parse.absurd "4611686018427387904"] = ([], EndErr, 65536%Z) /\
  parse_conn_full 4096%nat [C08_parse.absurd "1073741824"] = ([], EndErr, 65536%Z).
Proof. exact C08_parse.C08_legacy_refuted. Qed.
