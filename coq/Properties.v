(* Properties.v — ONLY the property theorems: the statement, closed by [exact] of the lemma
   proved in proofs/, nothing else.  tools/lib.py runs Print Assumptions on every theorem
   named Cxx_* and counts them as the proof obligations of property Cxx. *)
From Coq Require Import List Ascii String ZArith Bool Permutation.
From Model Require Import Bytes Glob StaticRoute Spec Run.
From Model.proofs Require C18.
Import ListNotations.

(* ------------------------------------------------------------------ C18 *)
(* the executable matcher decides "'*' = any sequence, every other character = itself" *)
Theorem C18_glob_correct : forall p s, glob p s = true <-> Glob p s.
Proof. exact C18.glob_correct. Qed.

(* fixed precedence: literal entry, else a matching wildcard entry, else default, else none —
   for every table and every host *)
Theorem C18_precedence : forall t host,
  match find_route t host with
  | Some it =>
      alookup host t = Some it
      \/ (alookup host t = None /\ exists d, In (d, it) t /\ Glob d host)
      \/ (alookup host t = None /\ (forall d it', In (d, it') t -> ~ Glob d host)
          /\ alookup (s2b "default") t = Some it)
  | None => alookup host t = None /\ (forall d it', In (d, it') t -> ~ Glob d host)
            /\ alookup (s2b "default") t = None
  end.
Proof. exact C18.find_route_spec. Qed.

(* the same, against the independent judge of Spec.v that reads the configuration itself
   (later entry for a dest replaces the earlier; invalid next hops are skipped) *)
Theorem C18_judged : forall cfg host,
  judge_C18 cfg host [option_map C18.ans_of (find_route (build_table cfg) host)] = true.
Proof. exact C18.find_route_judged. Qed.

(* stable answer: the result does not depend on the order in which the runtime enumerates
   the Go map [m]; and the list model used everywhere else is that Go-shaped function *)
Theorem C18_stable : forall cfg m host,
  Permutation (build_table cfg) m ->
  find_route_go m (map fst (build_table cfg)) host = find_route (build_table cfg) host.
Proof. exact C18.find_route_go_build_table. Qed.

(* the pre-fix map-order scan was not stable (computed witness) *)
Theorem C18_legacy_unstable_refuted :
  exists t o1 o2 host, Permutation o1 t /\ Permutation o2 t /\
     find_route_legacy o1 t host <> find_route_legacy o2 t host.
Proof. exact C18.find_route_legacy_unstable. Qed.

(* host:port yields that port; no port yields 5060, or 5061 for tls in any letter case *)
Theorem C18_port_default : forall proto dest h, ~ In ":"%char h ->
  new_pre_route_item proto dest h =
    Some {| ri_proto := proto; ri_dest := dest; ri_host := h;
            ri_port := if equal_fold (s2b "tls") proto then 5061 else 5060 |}.
Proof. exact C18.nexthop_no_port. Qed.
Theorem C18_port_explicit : forall proto dest h p, (0 <= p <= int_max)%Z ->
  new_pre_route_item proto dest (h ++ ":"%char :: itoa p) =
    Some {| ri_proto := proto; ri_dest := dest; ri_host := h; ri_port := p |}.
Proof. exact C18.nexthop_with_port. Qed.

(* ------------------------------------------------------------------ C05 *)
From Model Require Import RoundRobin SpecC05.
From Model.proofs Require C05.

(* every history in the domain (an address is never added while present): the outputs of the
   model satisfy the independent judge — member at that moment, None iff empty, every window of
   k dispatches between membership changes hits k different backends, removal flags, final set *)
Theorem C05_judged : forall ops, rr_domain ops = true ->
  let '(s, outs) := rr_run rr_init ops in judge_C05 ops outs (rr_backends s) = true.
Proof. exact C05.C05_judged. Qed.

Theorem C05_member : forall s, List.length (rr_backends s) <> 0%nat ->
  exists b, snd (rr_dispatch s) = Some b /\ In b (rr_backends s) /\
            rr_backends (fst (rr_dispatch s)) = rr_backends s /\
            rr_map (fst (rr_dispatch s)) = rr_map s.
Proof. exact C05.rr_member. Qed.

Theorem C05_empty_dropped : forall s, List.length (rr_backends s) = 0%nat -> rr_dispatch s = (s, None).
Proof. exact C05.rr_member_empty. Qed.

(* any k consecutive dispatches over k backends reach each exactly once — from ANY state,
   whatever the index is (it may exceed k after a removal) *)
Theorem C05_window : forall s, List.length (rr_backends s) <> 0%nat ->
  Permutation (snd (C05.rr_dispatches s (List.length (rr_backends s)))) (map Some (rr_backends s)) /\
  rr_backends (fst (C05.rr_dispatches s (List.length (rr_backends s)))) = rr_backends s.
Proof. exact C05.rr_window. Qed.

(* after N dispatches every backend has received floor(N/k) or floor(N/k)+1 *)
Theorem C05_counts : forall s N b, NoDup (rr_backends s) -> In b (rr_backends s) ->
  let c := count_occ C05.obytes_dec (snd (C05.rr_dispatches s N)) (Some b) in
  c = (N / List.length (rr_backends s))%nat \/ c = (N / List.length (rr_backends s) + 1)%nat.
Proof. exact C05.rr_counts. Qed.

Theorem C05_removed_silent : forall s a ops, C05.rr_inv s ->
  Forall (fun o => o <> RAdd a) ops ->
  ~ In (OSent (Some a)) (snd (rr_run (fst (rr_remove a s)) ops)).
Proof. exact C05.rr_removed_silent. Qed.

Theorem C05_added_joins : forall s a,
  let outs := snd (C05.rr_dispatches (rr_add a s) (List.length (rr_backends s) + 1)) in
  In (Some a) outs /\ forall b, In b (rr_backends s) -> In (Some b) outs.
Proof. exact C05.rr_added_joins. Qed.

(* schedules: every lock region one atomic step, ANY interleaving of dispatchers and
   membership changes: no division by zero / index out of range, and every delivery goes to a
   backend that is registered at the moment it is selected *)
Theorem C05_schedules_safe : forall ops,
  rr_srun {| ss_rr := rr_init; ss_threads := [] |} ops <> Panic /\
  exists st' outs,
    rr_srun {| ss_rr := rr_init; ss_threads := [] |} ops = Ok (st', outs) /\
    forall k tid b, nth_error outs k = Some (SDelivered tid b) ->
      exists stk, rr_srun {| ss_rr := rr_init; ss_threads := [] |} (firstn k ops)
                    = Ok (stk, firstn k outs) /\
                  In b (rr_backends (ss_rr stk)).
Proof. exact C05.C05_schedules_safe. Qed.

(* ------------------------------------------------------------------ C15 *)
From Model Require Import Pins SpecC15.
From Model.proofs Require C15.

Theorem C15_judged : forall timeout_s ops, pins_domain timeout_s ops = true ->
  judge_C15 timeout_s ops (snd (pins_run (0%Z, pins_new timeout_s 0%Z) ops)) = true.
Proof. exact C15.C15_judged. Qed.

(* honoured for max(timeout, Expires): at every instant strictly before the lifetime elapsed *)
Theorem C15_honoured : forall ts pre k b e mid,
  pins_domain ts (pre ++ PAdd k b e :: mid) = true ->
  existsb (C15.touches k) mid = false ->
  (C15.elapsed mid < c15_ns (Z.max ts e))%Z ->
  let st := C15.after ts (pre ++ PAdd k b e :: mid) in
  snd (pins_get (fst st) k (snd st)) = Some b.
Proof. exact C15.C15_honoured. Qed.

(* never at or after it *)
Theorem C15_never_after : forall ts pre k b e mid,
  pins_domain ts (pre ++ PAdd k b e :: mid) = true ->
  existsb (C15.touches k) mid = false ->
  (c15_ns (Z.max ts e) <= C15.elapsed mid)%Z ->
  let st := C15.after ts (pre ++ PAdd k b e :: mid) in
  snd (pins_get (fst st) k (snd st)) = None.
Proof. exact C15.C15_never_after. Qed.

(* dissolved on termination *)
Theorem C15_removed : forall ts pre k mid,
  existsb (C15.adds k) mid = false ->
  let st := C15.after ts (pre ++ PRemove k :: mid) in
  snd (pins_get (fst st) k (snd st)) = None.
Proof. exact C15.C15_removed. Qed.

(* right after any pin-creating event at time t nothing that expired more than one timeout
   before t is left, whatever Expires values were seen *)
Theorem C15_swept : forall ts pre k b e,
  pins_domain ts (pre ++ [PAdd k b e]) = true -> C15.swept (C15.after ts (pre ++ [PAdd k b e])).
Proof. exact C15.C15_swept. Qed.

Theorem C15_bounded : forall ts pre k b e,
  let ops := pre ++ [PAdd k b e] in
  pins_domain ts ops = true ->
  let t := fst (C15.after ts ops) in
  fst (c15_after ts ops) = t /\
  (List.length (p_tab (snd (C15.after ts ops))) <=
   List.length (filter (c15_recent ts t) (snd (c15_after ts ops))))%nat.
Proof. exact C15.C15_bounded. Qed.

(* the pre-fix code (nextCleanTime = expiry of the entry just added) violates it *)
Theorem C15_legacy_refuted :
  exists ts pre k b e,
    pins_domain ts (pre ++ [PAdd k b e]) = true /\
    ~ C15.swept (C15.legacy_after ts (pre ++ [PAdd k b e])) /\
    judge_C15 ts (pre ++ [PAdd k b e])
              (snd (C15.legacy_run (0%Z, pins_new ts 0%Z) (pre ++ [PAdd k b e]))) = false.
Proof. exact C15.C15_legacy_refuted. Qed.

(* ------------------------------------------------------------------ C19 *)
From Model Require Import Resolver SpecC19.
From Model.proofs Require C19.

Theorem C19_judged : forall port os,
  c19_domain os = true -> judge_C19 port os (C19.resolver_obs port (rentry_init, rr_init) os) = true.
Proof. exact C19.C19_judged. Qed.

(* what the extracted runner prints is exactly that observation *)
Theorem C19_runner_is_obs : forall port os st,
  resolver_run port st os = flat_map C19.e_c19_obs (C19.resolver_obs port st os).
Proof. exact C19.resolver_run_obs. Qed.

Theorem C19_tracks : forall port e s A e' s' outs,
  C19.Inv port (e, s) -> NoDup A ->
  resolver_step port (e, s) (ROk A) = ((e', s'), outs) ->
  C19.Inv port (e', s') /\
  re_addrs e' = A /\ re_failed e' = 0%nat /\
  NoDup (rr_backends s') /\
  Permutation (rr_backends s') (map (fun ip => create_host_port ip port) A) /\
  outs = repeat (ORemoved true) (List.length (str_array_sub (re_addrs e) A)) /\
  (forall ip, In ip (re_addrs e) -> ~ In ip A ->
     ~ In (create_host_port ip port) (rr_backends s') /\ ~ In (create_host_port ip port) (rr_map s')) /\
  (forall ip, In ip A ->
     In (create_host_port ip port) (rr_backends s') /\ In (create_host_port ip port) (rr_map s')).
Proof. exact C19.C19_tracks. Qed.

Theorem C19_tolerates : forall port e s,
  (re_failed e < 3)%nat \/ re_addrs e = [] ->
  resolver_step port (e, s) RFail =
  (({| re_addrs := re_addrs e; re_failed := S (re_failed e) |}, s), []).
Proof. exact C19.C19_tolerates. Qed.

Theorem C19_fourth_empties : forall port e s,
  C19.Inv port (e, s) -> (3 <= re_failed e)%nat -> re_addrs e <> [] ->
  exists s',
    resolver_step port (e, s) RFail =
      (({| re_addrs := []; re_failed := 0 |}, s'),
       repeat (ORemoved true) (List.length (re_addrs e))) /\
    rr_backends s' = [] /\ rr_map s' = [] /\
    C19.Inv port ({| re_addrs := []; re_failed := 0 |}, s').
Proof. exact C19.C19_fourth_empties. Qed.

Theorem C19_success_resets : forall port e s A,
  fst (fst (resolver_step port (e, s) (ROk A))) = {| re_addrs := A; re_failed := 0 |}.
Proof. exact C19.C19_success_resets. Qed.

Theorem C19_invariant_reachable : forall port os,
  c19_domain os = true -> C19.Inv port (C19.resolver_states port (rentry_init, rr_init) os).
Proof. exact C19.C19_inv_reachable. Qed.
