(* Proxy.v — the whole proxy as one step function: proxy.go (handleRawMessage, handleDialog,
   HandleMessage and everything they call), transport.go (ClientTransportMgr, the Send of the
   client transports, the per-connection receive loop), main.go (startProxy wiring).
   One [pstate] per `listens:` entry (= one Go Proxy object with its own message loop), the
   self-learned route table shared by all of them.  The step function follows the Go code
   call by call, including what it does with errors it ignores. *)
From Coq Require Import List Ascii String ZArith Bool.
From Model Require Import Bytes Uri Hdr Message Msg Rx Glob StaticRoute RoundRobin Pins.
Import ListNotations.
Open Scope Z_scope.

(* ------------------------------------------------------------------ small net helpers *)
(* net.ParseIP for dotted-quad IPv4 (Go >= 1.17: 1-3 digits, <= 255, no leading zero).
   IPv6 literals are outside the modelled domain. *)
Definition ipv4_field (s : bytes) : bool :=
  match s with
  | [] => false
  | c :: r =>
      forallb is_digit s && Nat.leb (List.length s) 3 &&
      (match r with [] => true | _ => negb (Ascii.eqb c "0") end) &&
      match digits_val s 0 with Some v => Z.leb v 255 | None => false end
  end.
Definition is_ipv4 (s : bytes) : bool :=
  match split_byte "."%char s with
  | [a; b; c; d] => ipv4_field a && ipv4_field b && ipv4_field c && ipv4_field d
  | _ => false
  end.
(* net.JoinHostPort *)
Definition join_host_port (host : bytes) (port : Z) : bytes :=
  if (contains_byte ":"%char host || contains_byte "%"%char host)%bool
  then "["%char :: host ++ "]"%char :: ":"%char :: itoa port
  else host ++ ":"%char :: itoa port.
(* net.ResolveUDPAddr / ResolveTCPAddr("host:port") succeed for an IPv4 literal and a port
   in range (names would go to DNS: outside the domain, modelled as failure) *)
Definition resolvable (host : bytes) (port : Z) : bool :=
  is_ipv4 host && Z.leb 0 port && Z.leb port 65535.

(* ------------------------------------------------------------------ configuration *)
Record listen_cfg := { lc_addr : bytes; lc_udp : Z; lc_tcp : Z;
                       lc_backends : list bytes;      (* "ip:port" of the configured udp://ip:port backends *)
                       lc_dynamic : bool;             (* a backend given by host name (resolved later) is configured *)
                       lc_no_received : bool; lc_def_route : bool; lc_must_rr : bool }.
Record cfg := { c_name : bytes; c_keep_next_hop : bool; c_dialog_timeout : Z;
                c_routes : list (bytes * (bytes * bytes));   (* protocol, dest, nexthop *)
                c_hosts : list (bytes * bytes);
                c_listens : list listen_cfg }.

(* startProxy: the arguments each constructor RECEIVES, position by position.
   NewProxy(name, dialogExpire, localAddress, keepNextHopRoute, preConfigRoute, resolver,
            selfLearnRoute, receivedSupport, mustRecordRoute)
   NewProxyItem(address, udpPort, tcpPort, backendLocalAddress, backendLocalPort, backends,
                dests, receivedSupport, defRoute, ...) *)
Record proxy_args := { pa_received_support : bool; pa_must_rr : bool }.
Record item_args := { ia_received_support : bool; ia_def_route : bool }.
Definition wire_proxy (lc : listen_cfg) : proxy_args :=
  {| pa_received_support := negb (lc_no_received lc); pa_must_rr := lc_must_rr lc |}.
(* startProxy passes (listen.defRoute, !listen.NoReceived) for the parameters
   (receivedSupport, defRoute) *)
Definition wire_item_legacy (lc : listen_cfg) : item_args :=
  {| ia_received_support := lc_def_route lc; ia_def_route := negb (lc_no_received lc) |}.
Definition wire_item_fixed (lc : listen_cfg) : item_args :=
  {| ia_received_support := negb (lc_no_received lc); ia_def_route := lc_def_route lc |}.

(* main.go toKeepNextHopRoute: the service's own keepNextHopRoute text decides when it is not empty; only an
   EMPTY setting falls back to the environment variable KEEP_NEXT_HOP_ROUTE; true = one of the six spellings,
   case-insensitively *)
Definition truthy (s : bytes) : bool :=
  existsb (beq (to_lower s)) (map s2b ["true"; "yes"; "1"; "on"; "t"; "y"]%string).
Definition to_keep_next_hop_route (setting env : bytes) : bool :=
  truthy (match setting with [] => env | _ => setting end).

(* main.go startProxy / getDefaultDialogTimeout: a dialogTimeout that is absent, zero or negative stands for 1200 s
   (the environment variable DEFAULT_DIALOG_TIMEOUT, unset in every run, could change that default) *)
Definition effective_dialog_timeout (dt : Z) : Z := if Z.leb dt 0 then 1200 else dt.

(* which repairs the modelled tree contains (all true = the current tree; a false flag gives
   the pre-fix behaviour, kept for the *_legacy_refuted witnesses) *)
Record fixes := { fx_wiring : bool;        (* startProxy argument order (received-support) *)
                  fx_udp_via_listener : bool; (* findClientTransport: listener socket only for UDP next hops *)
                  fx_indialog_invite : bool;  (* findBackendByDialog also for INVITE / SUBSCRIBE *)
                  fx_bracket_host : bool;     (* handleRawMessage: host[1:len-1] guarded *)
                  fx_resolved_key : bool;     (* the per-transaction TCP entry is filed and dropped under the RESOLVED address *)
                  fx_stale_pin : bool }.      (* findBackendByDialog forgets a pin whose backend object has left the set *)
Definition all_fixed : fixes := {| fx_wiring := true; fx_udp_via_listener := true; fx_indialog_invite := true; fx_bracket_host := true;
                                   fx_resolved_key := true; fx_stale_pin := true |}.

(* ------------------------------------------------------------------ transports *)
Inductive tkind := KUdp | KTcpListen | KTcpConn.
(* a ServerTransport as the routing code sees it: kind, GetAddress(), GetPort() *)
Record stransport := { t_kind : tkind; t_addr : bytes; t_port : Z }.
Definition t_proto (t : stransport) : bytes := match t_kind t with KUdp => s2b "UDP" | _ => s2b "TCP" end.
Definition same_transport (a b : stransport) : bool :=
  beq (t_proto a) (t_proto b) && beq (t_addr a) (t_addr b) && Z.eqb (t_port a) (t_port b).

(* SelfLearnRoute *)
Definition learned := list (bytes * stransport).
Definition learn (ip : bytes) (t : stransport) (l : learned) : learned :=
  match alookup ip l with
  | Some old => if same_transport old t then l else aset ip t l
  | None => aset ip t l
  end.

(* what a send does on the wire *)
Inductive dest :=
| DUdp (ip : bytes) (port : Z)           (* a datagram to ip:port *)
| DConn (c : nat)                        (* bytes written on an established TCP connection *)
| DDial (ip : bytes) (port : Z) (c : nat). (* a new connection [c] to ip:port was opened (no bytes) *)
Definition output := (dest * bytes)%type.

(* client side: what FailOverClientTransport.primary / .secondary can be *)
Inductive primary :=
| PUdp (ip : bytes) (port : Z)                 (* NewUDPClientTransport *)
| PUdpVia (ip : bytes) (port : Z)              (* NewUDPClientTransportWithConn on a listener socket *)
| PConn (c : nat) (expire : Z).                (* NewTCPClientTransportWithConn *)
(* a reconnectable TCPClientTransport is an object shared by several table entries *)
Record tclient := { tc_id : nat; tc_host : bytes; tc_port : Z; tc_cached : option nat }.
Record failover := { fo_pri : option primary; fo_sec : option nat (* tclient id *) }.

(* TCP connections the proxy knows (both accepted and dialled) *)
Record conn := { cn_id : nat; cn_li : nat; cn_open : bool;
                 cn_peer : bytes; cn_peer_port : Z;
                 cn_from : stransport;            (* the ServerTransport reading it *)
                 cn_received_support : bool }.

(* one Go Proxy object *)
Record pstate := { ps_backends : list (bytes * nat);      (* Proxy.backends: address -> generation *)
                   ps_rr : rr;                            (* item.backend *)
                   ps_has_rr : bool;                      (* CreateRoundRobinBackend succeeded *)
                   ps_gen : nat;                          (* next backend object generation *)
                   ps_pins : pins;
                   ps_table : list (bytes * failover);    (* ClientTransportMgr.transports *)
                   ps_clients : list tclient;
                   ps_last_clean : Z }.                   (* seconds *)

Record world := { w_tcp_listeners : list (bytes * Z);     (* peers accepting TCP connections *)
                  w_next_conn : nat }.

Record state := { st_learned : learned; st_proxies : list pstate; st_conns : list conn; st_world : world }.

(* ------------------------------------------------------------------ resolver *)
(* PreConfigHostResolver.GetIp *)
Definition get_ip (c : cfg) (name : bytes) : option bytes :=
  if is_ipv4 name then Some name else alookup name (c_hosts c).
Definition is_same_address (c : cfg) (a1 a2 : bytes) : bool :=
  beq a1 a2 ||
  match get_ip c a1, get_ip c a2 with Some i1, Some i2 => beq i1 i2 | _, _ => false end.

(* ------------------------------------------------------------------ pins hold Backend objects *)
(* value stored for a pin: a concrete backend object (address + generation) or the
   RoundRobinBackend itself *)
Definition pin_val_backend (addr : bytes) (gen : nat) : bytes := addr ++ "#"%char :: itoa (Z.of_nat gen).
Definition pin_val_rr : bytes := s2b "RoundRobin://".
Inductive bref := BObj (addr : bytes) (gen : nat) | BRR.
Definition bref_val (b : bref) : bytes :=
  match b with BObj a g => pin_val_backend a g | BRR => pin_val_rr end.
Definition bref_of_val (v : bytes) : bref :=
  match last_index_byte "#"%char v with
  | Some pos => BObj (firstn pos v) (Z.to_nat (atoi_val (skipn (S pos) v)))
  | None => BRR
  end.

(* ------------------------------------------------------------------ ClientTransportMgr *)
Definition full_addr (proto host : bytes) (port : Z) (trans_id : bytes) : bytes :=
  let a := proto ++ s2b "://" ++ join_host_port host port in
  if (beq proto (s2b "tcp") && negb (beq trans_id []))%bool then a ++ "-"%char :: trans_id else a.

Definition primary_expired (now_s : Z) (p : primary) : bool :=
  match p with PConn _ e => Z.ltb 0 e && Z.ltb e now_s | _ => false end.
(* cleanExpiredTransport (secondaries are reconnectable clients: expire = 0, never expired) *)
Definition clean_expired (now_s : Z) (p : pstate) : pstate :=
  if Z.ltb (now_s - ps_last_clean p) 60 then p
  else {| ps_backends := ps_backends p; ps_rr := ps_rr p; ps_has_rr := ps_has_rr p; ps_gen := ps_gen p;
          ps_pins := ps_pins p;
          ps_table := filter (fun kv => negb (match fo_pri (snd kv) with Some pr => primary_expired now_s pr | None => false end))
                             (ps_table p);
          ps_clients := ps_clients p; ps_last_clean := now_s |}.

Definition with_table (p : pstate) (t : list (bytes * failover)) : pstate :=
  {| ps_backends := ps_backends p; ps_rr := ps_rr p; ps_has_rr := ps_has_rr p; ps_gen := ps_gen p;
     ps_pins := ps_pins p; ps_table := t; ps_clients := ps_clients p; ps_last_clean := ps_last_clean p |}.
Definition with_clients (p : pstate) (c : list tclient) : pstate :=
  {| ps_backends := ps_backends p; ps_rr := ps_rr p; ps_has_rr := ps_has_rr p; ps_gen := ps_gen p;
     ps_pins := ps_pins p; ps_table := ps_table p; ps_clients := c; ps_last_clean := ps_last_clean p |}.
Definition with_pins (p : pstate) (x : pins) : pstate :=
  {| ps_backends := ps_backends p; ps_rr := ps_rr p; ps_has_rr := ps_has_rr p; ps_gen := ps_gen p;
     ps_pins := x; ps_table := ps_table p; ps_clients := ps_clients p; ps_last_clean := ps_last_clean p |}.
Definition with_rr (p : pstate) (x : rr) : pstate :=
  {| ps_backends := ps_backends p; ps_rr := x; ps_has_rr := ps_has_rr p; ps_gen := ps_gen p;
     ps_pins := ps_pins p; ps_table := ps_table p; ps_clients := ps_clients p; ps_last_clean := ps_last_clean p |}.

Definition supported_proto (p : bytes) : bool := beq p (s2b "udp") || beq p (s2b "tcp").

(* GetTransport: returns the key under which the (possibly new) entry lives *)
Definition get_transport (now_s : Z) (proto host : bytes) (port : Z) (trans_id : bytes) (p0 : pstate)
  : pstate * res bytes :=
  let p := clean_expired now_s p0 in
  let proto := to_lower proto in
  if negb (supported_proto proto) then (p, Err)
  else
    let key := full_addr proto host port trans_id in
    match alookup key (ps_table p) with
    | Some _ => (p, Ok key)
    | None =>
        if beq proto (s2b "udp") then
          if resolvable host port
          then (with_table p (aset key {| fo_pri := Some (PUdp host port); fo_sec := None |} (ps_table p)), Ok key)
          else (p, Err)
        else
          let addr := full_addr proto host port [] in
          match alookup addr (ps_table p) with
          | Some f =>
              (with_table p (aset key {| fo_pri := None; fo_sec := fo_sec f |} (ps_table p)), Ok key)
          | None =>
              let id := List.length (ps_clients p) in
              let p1 := with_clients p (ps_clients p ++ [{| tc_id := id; tc_host := host; tc_port := port; tc_cached := None |}]) in
              let t1 := aset addr {| fo_pri := None; fo_sec := Some id |} (ps_table p1) in
              (with_table p1 (aset key {| fo_pri := None; fo_sec := Some id |} t1), Ok key)
          end
    end.

Definition set_primary (key : bytes) (pr : primary) (p : pstate) : pstate :=
  match alookup key (ps_table p) with
  | Some f => with_table p (aset key {| fo_pri := Some pr; fo_sec := fo_sec f |} (ps_table p))
  | None => p
  end.

(* RemoveTransport *)
Definition remove_transport (proto host : bytes) (port : Z) (trans_id : bytes) (p : pstate) : pstate :=
  let proto := to_lower proto in
  if negb (supported_proto proto) then p
  else with_table p (adel (full_addr proto host port trans_id) (ps_table p)).

(* ------------------------------------------------------------------ sending *)
Definition max_datagram : Z := 65507.
Definition fits_datagram (b : bytes) : bool := Z.leb (Z.of_nat (List.length b)) max_datagram.
Definition conn_open (cs : list conn) (c : nat) : bool :=
  existsb (fun x => Nat.eqb (cn_id x) c && cn_open x) cs.
Fixpoint close_conn (c : nat) (cs : list conn) : list conn :=
  match cs with
  | [] => []
  | x :: r => if Nat.eqb (cn_id x) c
              then {| cn_id := cn_id x; cn_li := cn_li x; cn_open := false; cn_peer := cn_peer x; cn_peer_port := cn_peer_port x;
                      cn_from := cn_from x; cn_received_support := cn_received_support x |} :: r
              else x :: close_conn c r
  end.
Fixpoint set_client_cached (id : nat) (v : option nat) (l : list tclient) : list tclient :=
  match l with
  | [] => []
  | x :: r => if Nat.eqb (tc_id x) id
              then {| tc_id := id; tc_host := tc_host x; tc_port := tc_port x; tc_cached := v |} :: r
              else x :: set_client_cached id v r
  end.
Definition find_client (id : nat) (l : list tclient) : option tclient :=
  find (fun x => Nat.eqb (tc_id x) id) l.

(* TCPClientTransport.Send of a reconnectable client: two ROUNDS; a round without a connection dials first (a
   failed dial aborts) and then writes - the round that dials also writes, on the connection it has just opened;
   a write on a cached connection that has been closed fails, the connection is forgotten and the next round
   dials.  (So a stale cached connection costs one round, and the second one dials AND writes.)
   [local] = the proxy's localAddress, [rs] = the receivedSupport NewProxy was given: a
   dialled connection gets its own server transport reading it. *)
Fixpoint tcp_client_send (n : nat) (li : nat) (local : bytes) (rs : bool) (id : nat) (b : bytes)
         (p : pstate) (cs : list conn) (w : world) (outs : list output)
  : pstate * list conn * world * list output * bool :=
  match n with
  | O => (p, cs, w, outs, false)
  | S n' =>
      match find_client id (ps_clients p) with
      | None => (p, cs, w, outs, false)
      | Some cl =>
          match tc_cached cl with
          | Some c =>
              if conn_open cs c then (p, cs, w, outs ++ [(DConn c, b)], true)
              else tcp_client_send n' li local rs id b (with_clients p (set_client_cached id None (ps_clients p)))
                                   cs w outs
          | None =>
              if existsb (fun '(h, pt) => beq h (tc_host cl) && Z.eqb pt (tc_port cl)) (w_tcp_listeners w)
              then
                let c := w_next_conn w in
                let cn := {| cn_id := c; cn_li := li; cn_open := true; cn_peer := tc_host cl; cn_peer_port := tc_port cl;
                             cn_from := {| t_kind := KTcpConn; t_addr := local; t_port := 0 |};
                             cn_received_support := rs |} in
                (with_clients p (set_client_cached id (Some c) (ps_clients p)),
                 cs ++ [cn],
                 {| w_tcp_listeners := w_tcp_listeners w; w_next_conn := S c |},
                 outs ++ [(DDial (tc_host cl) (tc_port cl) c, []); (DConn c, b)], true)
              else (p, cs, w, outs, false)
          end
      end
  end.

(* FailOverClientTransport.Send on the entry object [f] (the object, not the table slot: the
   slot may already have been removed by RemoveTransport) *)
Definition failover_send (li : nat) (local : bytes) (rs : bool) (f : failover) (b : bytes)
           (p : pstate) (cs : list conn) (w : world)
  : pstate * list conn * world * list output * bool * failover :=
  let try_sec (f1 : failover) (outs : list output) :=
    match fo_sec f1 with
    | Some id => let '(p2, cs2, w2, outs2, ok) := tcp_client_send 2 li local rs id b p cs w outs in
                 (p2, cs2, w2, outs2, ok, f1)
    | None => (p, cs, w, outs, false, f1)
    end in
  match fo_pri f with
  | Some (PUdp ip port) | Some (PUdpVia ip port) =>
      if fits_datagram b then (p, cs, w, [(DUdp ip port, b)], true, f)
      else try_sec {| fo_pri := None; fo_sec := fo_sec f |} []
  | Some (PConn c _) =>
      if conn_open cs c then (p, cs, w, [(DConn c, b)], true, f)
      else try_sec {| fo_pri := None; fo_sec := fo_sec f |} []
  | None => try_sec f []
  end.

(* ------------------------------------------------------------------ MyName *)
Record my_name := { mn_names : list bytes; mn_patterns : list rx }.
Definition new_my_name (name : bytes) : my_name :=
  let names := map trim_space_go (split_byte ","%char name) in
  {| mn_names := names;
     mn_patterns := flat_map (fun s => match rx_compile s with Some r => [r] | None => [] end) names |}.
Definition match_absolute_uri (n : my_name) (u : bytes) : bool :=
  mem_bytes u (mn_names n) || existsb (fun r => rx_match r u) (mn_patterns n).
Definition match_sip_uri (n : my_name) (user host : bytes) : bool :=
  existsb (fun name => match index_byte "@"%char name with
                       | None => beq host name
                       | Some pos => beq host (skipn (S pos) name) && beq user (firstn pos name)
                       end) (mn_names n)
  || existsb (fun r => rx_match r (user ++ "@"%char :: host)) (mn_patterns n).
Definition is_my_message (n : my_name) (from : stransport) (m : message) : bool :=
  match m_start m with
  | SReq _ (AAbs s) _ => match_absolute_uri n s
  | SReq _ (ASip u) _ =>
      (beq (u_host u) (t_addr from) && Z.eqb (sip_uri_get_port u) (t_port from))
      || match_sip_uri n (u_user u) (u_host u)
  | SResp _ _ _ => false
  end.

(* ------------------------------------------------------------------ the per-message pipeline *)
Record env := { e_fx : fixes; e_cfg : cfg; e_li : nat; e_lc : listen_cfg; e_now : Z (* ns *); e_branch : bytes;
                e_item_rs : bool (* receivedSupport the listeners were created with *) }.
Definition now_s (e : env) : Z := Z.div (e_now e) second.
Definition route_table_of (c : cfg) : route_table :=
  fold_left (fun t '(p, (d, n)) => add_route_item t p d n) (c_routes c) [].

(* item.transports[0] *)
Definition first_transport (lc : listen_cfg) : option stransport :=
  if Z.ltb 0 (lc_udp lc) then Some {| t_kind := KUdp; t_addr := lc_addr lc; t_port := lc_udp lc |}
  else if Z.ltb 0 (lc_tcp lc) then Some {| t_kind := KTcpListen; t_addr := lc_addr lc; t_port := lc_tcp lc |}
  else None.

(* getNextReponseHop *)
Definition next_response_hop : M (bytes * Z * bytes) :=
  mlet v := s_top_via in
  match via_get_received v with
  | Some h => mret (h, match via_get_rport v with Some p => p | None => via_get_port v end, v_transport v)
  | None => mret (v_host v, via_get_port v, v_transport v)
  end.

(* addVia / addRecordRoute *)
Definition px_add_via (e : env) (t : stransport) (m : message) : message :=
  add_via (via_set_param (s2b "branch") (e_branch e) (create_via_param (t_proto t) (t_addr t) (t_port t))) m.
Definition own_record_route (t : stransport) : route_param :=
  {| r_addr := {| na_display := [];
                  na_addr := ASip {| u_scheme := s2b "sip"; u_user := []; u_password := []; u_host := t_addr t;
                                     u_port := t_port t; u_params := [{| k_key := s2b "lr"; k_val := [] |}];
                                     u_headers := [] |} |};
     r_params := [] |}.
Definition px_add_record_route (must : bool) (t : stransport) (m : message) : message :=
  if (negb (has_header (s2b "Record-Route") m) && negb must)%bool then m
  else add_record_route (own_record_route t) m.

Record ctx := { x_learned : learned; x_p : pstate; x_conns : list conn; x_world : world; x_outs : list output }.

(* sendMessage *)
Definition send_message (e : env) (host : bytes) (port : Z) (transport : bytes) (m : message) (x : ctx)
  : ctx * message :=
  let ip := match get_ip (e_cfg e) host with Some i => i | None => host end in
  let '(m1, tid) := mtry s_client_transaction m in
  let trans_id := match tid with Ok (Some t) => t | _ => [] end in
  (* findClientTransport *)
  let '(p1, rkey) := get_transport (now_s e) transport ip port trans_id (x_p x) in
  match rkey with
  | Ok key =>
      let p2 :=
        match alookup key (ps_table p1) with
        | Some {| fo_pri := None |} =>
            if (fx_udp_via_listener (e_fx e) && negb (equal_fold transport (s2b "udp")))%bool then p1 else
            match alookup ip (x_learned x) with
            | Some {| t_kind := KUdp |} => if resolvable ip port then set_primary key (PUdpVia ip port) p1 else p1
            | _ => p1
            end
        | _ => p1
        end in
      match alookup key (ps_table p2) with
      | None => ({| x_learned := x_learned x; x_p := p2; x_conns := x_conns x; x_world := x_world x; x_outs := x_outs x |}, m1)
      | Some f =>
          let p3 := if is_final_response m1
                    then remove_transport transport (if fx_resolved_key (e_fx e) then ip else host) port trans_id p2 else p2 in
          let '(p4, cs, w, outs, ok, f') :=
            failover_send (e_li e) (lc_addr (e_lc e)) (pa_received_support (wire_proxy (e_lc e))) f (write_message m1) p3 (x_conns x) (x_world x) in
          (* the entry object was mutated by Send (primary forgotten): visible through the table
             only if the slot still holds that object *)
          let p5 := match alookup key (ps_table p4) with
                    | Some _ => with_table p4 (aset key f' (ps_table p4))
                    | None => p4 end in
          ({| x_learned := x_learned x; x_p := p5; x_conns := cs; x_world := w; x_outs := x_outs x ++ outs |}, m1)
      end
  | _ => ({| x_learned := x_learned x; x_p := p1; x_conns := x_conns x; x_world := x_world x; x_outs := x_outs x |}, m1)
  end.

(* pins with backend objects *)
Definition bref_alive (p : pstate) (b : bref) : bool :=
  match b with
  | BRR => true
  | BObj a g => match alookup a (ps_backends p) with Some g' => Nat.eqb g g' | None => false end
  end.

(* Backend.Send: the pinned object, or the rotation *)
Definition backend_send (b : bref) (bytes_ : bytes) (p : pstate) : pstate * list output * bool :=
  let to_addr (a : bytes) :=
    match last_index_byte ":"%char a with
    | Some pos => [(DUdp (firstn pos a) (atoi_val (skipn (S pos) a)), bytes_)]
    | None => []
    end in
  let ok_size := fits_datagram bytes_ in
  match b with
  | BObj a g =>
      (* a closed backend object (removed from the pool) fails to send *)
      if (existsb (fun '(a', g') => beq a a' && Nat.eqb g g') (ps_backends p) && ok_size)%bool
      then (p, to_addr a, true) else (p, [], false)
  | BRR =>
      let '(r', o) := rr_dispatch (ps_rr p) in
      match o with
      | Some a => if ok_size then (with_rr p r', to_addr a, true) else (with_rr p r', [], false)
      | None => (with_rr p r', [], false)
      end
  end.

(* findBackendByDialog: (backend, err) *)
Definition find_backend_by_dialog (e : env) (p : pstate) : M (pstate * option bref) :=
  mlet meth := s_get_method in
  if (negb (fx_indialog_invite (e_fx e)) && (beq meth (s2b "INVITE") || beq meth (s2b "SUBSCRIBE")))%bool then mret (p, None)
  else
    mlet od := mtry s_get_dialog in
    match od with
    | None => mret (p, None)
    | Some d =>
        let '(pins1, ob) := pins_get (e_now e) d (ps_pins p) in
        let p1 := with_pins p pins1 in
        (* the backend object that answered the dialog has left the set (closed): the binding is forgotten and the
           request treated like one of an unknown dialog *)
        if (fx_stale_pin (e_fx e) && match ob with Some v => negb (bref_alive p1 (bref_of_val v)) | None => false end)%bool
        then mret (with_pins p1 (pins_remove d (ps_pins p1)), None)
        else
        mlet ss := mtry (s_get_raw (s2b "Subscription-State")) in
        let p2 := if (beq meth (s2b "NOTIFY") && match ss with Some s => beq s (s2b "terminated") | None => false end)%bool
                  then with_pins p1 (pins_remove d (ps_pins p1)) else p1 in
        mret (p2, option_map bref_of_val ob)
    end.

(* sendToBackend *)
Definition send_to_backend (e : env) (m : message) (x : ctx) : ctx * message :=
  let p := x_p x in
  if negb (ps_has_rr p) then (x, m)
  else
    match first_transport (e_lc e) with
    | None => (x, m)     (* item.transports[0] on an empty slice: a configuration without ports is outside the domain *)
    | Some t0 =>
        let '(m1, r) := find_backend_by_dialog e p m in
        let '(p1, ob) := match r with Ok v => v | _ => (p, None) end in
        let b := match ob with Some b => b | None => BRR end in
        let m2 := px_add_record_route (pa_must_rr (wire_proxy (e_lc e))) t0 (px_add_via e t0 m1) in
        let '(p2, outs, ok) := backend_send b (write_message m2) p1 in
        if ok then
          let '(m3, tid) := mtry s_client_transaction m2 in
          let p3 := match tid with
                    | Ok (Some t) => with_pins p2 (pins_add (e_now e) t (bref_val b) (get_expires m3 0) (ps_pins p2))
                    | _ => p2 end in
          ({| x_learned := x_learned x; x_p := p3; x_conns := x_conns x; x_world := x_world x; x_outs := x_outs x ++ outs |}, m3)
        else ({| x_learned := x_learned x; x_p := p2; x_conns := x_conns x; x_world := x_world x; x_outs := x_outs x |}, m2)
    end.

(* getNextRequestHopByRoute *)
Definition next_hop_by_route (keep : bool) : M (bytes * Z * bytes) :=
  mlet l := s_get_route in
  match l with
  | [] => merr
  | rp :: _ =>
      mlet _ := (if keep then mret (Some tt) else mtry s_pop_route) in
      match na_addr (r_addr rp) with
      | ASip u => mret (u_host u, sip_uri_get_port u, sip_uri_transport u)
      | AAbs _ => merr
      end
  end.
(* getNextRequestHopByConfig *)
Definition next_hop_by_config (rt : route_table) : M (bytes * Z * bytes) :=
  mlet t := s_get_to in
  match fromto_host t with
  | None => merr
  | Some h => match find_route rt h with
              | Some it => mret (ri_host it, ri_port it, ri_proto it)
              | None => merr
              end
  end.
Definition next_request_hop (keep : bool) (rt : route_table) : M (bytes * Z * bytes) :=
  fun m => let '(m1, r) := next_hop_by_route keep m in
           match r with
           | Ok v => (m1, Ok v)
           | Panic => (m1, Panic)
           | Err => next_hop_by_config rt m1
           end.

(* tryRemoveTopRoute *)
Definition try_remove_top_route (c : cfg) (from : stransport) : M unit :=
  mlet l := s_get_route in
  match l with
  | rp :: _ =>
      match na_addr (r_addr rp) with
      | ASip u => if (Z.eqb (sip_uri_get_port u) (t_port from) && is_same_address c (u_host u) (t_addr from))%bool
                  then s_pop_route else mret tt
      | AAbs _ => mret tt
      end
  | [] => mret tt
  end.

(* handleDialog (responses only) *)
Definition handle_dialog (e : env) (peer : bytes) (peer_port : Z) (p : pstate) : M pstate :=
  let addr := join_host_port peer peer_port in
  (* getBackendOfResponse *)
  mlet pb :=
    (match alookup addr (ps_backends p) with
     | Some g => mret (p, Some (BObj addr g))
     | None =>
         mlet tid := s_client_transaction in
         let '(pins1, ob) := pins_get (e_now e) tid (ps_pins p) in
         mlet fin := (fun m => (m, Ok (is_final_response m))) in
         let pins2 := if fin then pins_remove tid pins1 else pins1 in
         mret (with_pins p pins2, option_map bref_of_val ob)
     end) in
  let '(p1, ob) := pb in
  match ob with
  | None => mret p1
  | Some b =>
      mlet om := mtry s_get_method in
      match om with
      | None => mret p1
      | Some meth =>
          if beq meth (s2b "INVITE") then
            mlet od := mtry s_get_dialog in
            mlet ex := s_get_expires 0 in
            match od with
            | Some d => mret (with_pins p1 (pins_add (e_now e) d (bref_val b) ex (ps_pins p1)))
            | None => mret p1
            end
          else if beq meth (s2b "BYE") then
            mlet od := mtry s_get_dialog in
            match od with
            | Some d => mret (with_pins p1 (pins_remove d (ps_pins p1)))
            | None => mret p1
            end
          else mret p1
      end
  end.

(* HandleMessage *)
Definition handle_message (e : env) (from : stransport) (m : message) (x : ctx) : ctx * message :=
  if is_request m then
    let '(m1, r) := next_request_hop (c_keep_next_hop (e_cfg e)) (route_table_of (e_cfg e)) m in
    match r with
    | Ok (host, port, transport) =>
        let m2 := match alookup host (x_learned x) with
                  | Some t => px_add_record_route (pa_must_rr (wire_proxy (e_lc e))) t (px_add_via e t m1)
                  | None => m1 end in
        send_message e host port transport m2 x
    | _ =>
        if is_my_message (new_my_name (c_name (e_cfg e))) from m1 then send_to_backend e m1 x
        else (x, m1)
    end
  else
    let '(m1, _) := mtry s_pop_via m in
    let '(m2, hop) := mtry next_response_hop m1 in
    let '(m3, ometh) := mtry s_get_method m2 in
    let '(m4, p1) :=
      match hop, ometh with
      | Ok (Some (host, port, _)), Ok (Some meth) =>
          if beq meth (s2b "SUBSCRIBE") then
            let addr := host ++ ":"%char :: itoa port in
            match alookup addr (ps_backends (x_p x)) with
            | Some g =>
                let '(m', od) := mtry s_get_dialog m3 in
                match od with
                | Ok (Some d) => (m', with_pins (x_p x) (pins_add (e_now e) d (pin_val_backend addr g) (get_expires m' 0) (ps_pins (x_p x))))
                | _ => (m', x_p x)
                end
            | None => (m3, x_p x)
            end
          else (m3, x_p x)
      | _, _ => (m3, x_p x)
      end in
    let x1 := {| x_learned := x_learned x; x_p := p1; x_conns := x_conns x; x_world := x_world x; x_outs := x_outs x |} in
    match hop with
    | Ok (Some (host, port, transport)) => send_message e host port transport m4 x1
    | _ => (x1, m4)
    end.

(* handleRawMessage + handleDialog + HandleMessage for one decoded message.
   [tcp] = the connection it arrived on (None for UDP) *)
Definition process_message (e : env) (peer : bytes) (peer_port : Z) (from : stransport) (rs : bool)
           (tcp : option nat) (m0 : message) (x : ctx) : res ctx :=
  (* learn *)
  let '(m1, l1) :=
    if (is_request m0 && negb (amem peer (ps_backends (x_p x))))%bool then
      let '(m', vs) := s_all_via_params m0 in
      (m', fold_left (fun l v => learn (v_host v) from l)
                     (match vs with Ok l => l | _ => [] end) (learn peer from (x_learned x)))
    else (m0, x_learned x) in
  (* received / rport *)
  let m2 := if (is_request m1 && rs)%bool then fst (s_set_received peer peer_port m1) else m1 in
  (* remember the connection for the responses *)
  let '(m3, rp) :=
    match tcp with
    | Some c =>
        if is_request m2 then
          let '(m', hop) := mtry next_response_hop m2 in
          match hop with
          | Ok oh =>
              let host0 := match oh with Some (h, _, _) => h | None => [] end in
              let port := match oh with Some (_, p, _) => p | None => 0 end in
              (* host[1:len(host)-1] *)
              match (if has_prefix (s2b "[") host0
                     then (if (fx_bracket_host (e_fx e) && negb (has_suffix (s2b "]") host0 && Nat.leb 2 (List.length host0)))%bool
                           then Ok host0 else slice_chk host0 1 (List.length host0 - 1))
                     else Ok host0) with
              | Panic => (m', Panic)
              | Err => (m', Err)
              | Ok host =>
                  match oh with
                  | None => (m', Ok (x_p x))
                  | Some _ =>
                      let '(m'', tid) := mtry s_client_transaction m' in
                      match tid with
                      | Ok (Some t) =>
                          (* filed under the address sendMessage will look up *)
                          let host_r := if fx_resolved_key (e_fx e)
                                        then match get_ip (e_cfg e) host with Some i => i | None => host end else host in
                          let '(p1, rk) := get_transport (now_s e) (s2b "tcp") host_r port t (x_p x) in
                          match rk with
                          | Ok key => (m'', Ok (set_primary key (PConn c (now_s e + 3600)) p1))
                          | _ => (m'', Ok p1)
                          end
                      | _ => (m'', Ok (x_p x))
                      end
                  end
              end
          | _ => (m', Ok (x_p x))
          end
        else (m2, Ok (x_p x))
    | None => (m2, Ok (x_p x))
    end in
  match rp with
  | Panic => Panic
  | Err => Err
  | Ok p1 =>
      let m4 := fst (mtry (try_remove_top_route (e_cfg e) from) m3) in
      let '(m5, p2) :=
        if is_response m4 then
          let '(m', r) := handle_dialog e peer peer_port p1 m4 in
          (m', match r with Ok p' => p' | _ => p1 end)
        else (m4, p1) in
      let x1 := {| x_learned := l1; x_p := p2; x_conns := x_conns x; x_world := x_world x; x_outs := x_outs x |} in
      Ok (fst (handle_message e from m5 x1))
  end.

(* ------------------------------------------------------------------ events *)
Inductive event :=
| EvUdp (li : nat) (src : bytes) (sport : Z) (data : bytes)
| EvTcpAccept (li : nat) (src : bytes) (sport : Z)        (* the new connection gets id w_next_conn *)
| EvTcpData (c : nat) (data : bytes)                       (* complete messages (segmentation: Bufio.v) *)
| EvTcpClose (c : nat)
| EvBackendAdd (li : nat) (addr : bytes)
| EvBackendRemove (li : nat) (addr : bytes).

Definition nth_p (l : list pstate) (i : nat) : option pstate := nth_opt l i.
Fixpoint set_nth_p (l : list pstate) (i : nat) (p : pstate) : list pstate :=
  match l, i with
  | [], _ => []
  | _ :: r, O => p :: r
  | x :: r, S j => x :: set_nth_p r j p
  end.

Definition mk_env (fx : fixes) (c : cfg) (item_rs : listen_cfg -> bool) (li : nat) (lc : listen_cfg) (now : Z) (branch : bytes) : env :=
  {| e_fx := fx; e_cfg := c; e_li := li; e_lc := lc; e_now := now; e_branch := branch; e_item_rs := item_rs lc |}.

Definition run_ctx (st : state) (li : nat) (f : pstate -> ctx -> res ctx) : res (state * list output) :=
  match nth_p (st_proxies st) li with
  | None => Ok (st, [])
  | Some p =>
      match f p {| x_learned := st_learned st; x_p := p; x_conns := st_conns st; x_world := st_world st; x_outs := [] |} with
      | Ok x => Ok ({| st_learned := x_learned x; st_proxies := set_nth_p (st_proxies st) li (x_p x);
                       st_conns := x_conns x; st_world := x_world x |}, x_outs x)
      | Err => Err
      | Panic => Panic
      end
  end.

(* the messages of a TCP chunk, processed one after the other; a decode error closes the
   connection; [fuel] = number of bytes + 1 *)
Fixpoint tcp_messages (fuel : nat) (e : env) (c : conn) (s : bytes) (x : ctx) : res ctx :=
  match fuel with
  | O => Ok x
  | S f =>
      match trim_left s with
      | [] => Ok x                                   (* only keep-alive blank lines left: the reader waits *)
      | _ =>
          match parse_message s with
          | Ok (m, rest) =>
              match process_message e (cn_peer c) (cn_peer_port c) (cn_from c) (cn_received_support c)
                                    (Some (cn_id c)) m x with
              | Ok x1 => tcp_messages f e c rest x1
              | Err => Err
              | Panic => Panic
              end
          | _ => Ok {| x_learned := x_learned x; x_p := x_p x; x_conns := close_conn (cn_id c) (x_conns x);
                       x_world := x_world x; x_outs := x_outs x |}
          end
      end
  end.

Definition item_rs_of (fixed : bool) (lc : listen_cfg) : bool :=
  ia_received_support (if fixed then wire_item_fixed lc else wire_item_legacy lc).

Definition proxy_step (fx : fixes) (c : cfg) (now : Z) (branch : bytes)
           (st : state) (ev : event) : res (state * list output) :=
  match ev with
  | EvUdp li src sport data =>
      match nth_opt (c_listens c) li with
      | None => Ok (st, [])
      | Some lc =>
          let e := mk_env fx c (item_rs_of (fx_wiring fx)) li lc now branch in
          match parse_message data with
          | Ok (m, _) =>
              run_ctx st li (fun _ x =>
                process_message e src sport {| t_kind := KUdp; t_addr := lc_addr lc; t_port := lc_udp lc |}
                                (e_item_rs e) None m x)
          | _ => Ok (st, [])
          end
      end
  | EvTcpAccept li src sport =>
      match nth_opt (c_listens c) li, nth_p (st_proxies st) li with
      | Some lc, Some p =>
          let e := mk_env fx c (item_rs_of (fx_wiring fx)) li lc now branch in
          let cid := w_next_conn (st_world st) in
          let cn := {| cn_id := cid; cn_li := li; cn_open := true; cn_peer := src; cn_peer_port := sport;
                       cn_from := {| t_kind := KTcpListen; t_addr := lc_addr lc; t_port := lc_tcp lc |};
                       cn_received_support := e_item_rs e |} in
          let '(p1, rk) := get_transport (now_s e) (s2b "tcp") src sport [] p in
          let p2 := match rk with Ok key => set_primary key (PConn cid (now_s e + 3600)) p1 | _ => p1 end in
          Ok ({| st_learned := st_learned st; st_proxies := set_nth_p (st_proxies st) li p2;
                 st_conns := st_conns st ++ [cn];
                 st_world := {| w_tcp_listeners := w_tcp_listeners (st_world st); w_next_conn := S cid |} |}, [])
      | _, _ => Ok (st, [])
      end
  | EvTcpData cid data =>
      match find (fun x => Nat.eqb (cn_id x) cid) (st_conns st) with
      | Some cn =>
          if cn_open cn then
            let li := cn_li cn in
            match nth_opt (c_listens c) li with
            | Some lc =>
                let e := mk_env fx c (item_rs_of (fx_wiring fx)) li lc now branch in
                run_ctx st li (fun _ x => tcp_messages (S (List.length data)) e cn data x)
            | None => Ok (st, [])
            end
          else Ok (st, [])
      | None => Ok (st, [])
      end
  | EvTcpClose cid =>
      Ok ({| st_learned := st_learned st; st_proxies := st_proxies st; st_conns := close_conn cid (st_conns st);
             st_world := st_world st |}, [])
  | EvBackendAdd li addr =>
      match nth_p (st_proxies st) li with
      | Some p =>
          let g := ps_gen p in
          let p1 := {| ps_backends := aset addr g (ps_backends p); ps_rr := rr_add addr (ps_rr p);
                       ps_has_rr := ps_has_rr p; ps_gen := S g; ps_pins := ps_pins p; ps_table := ps_table p;
                       ps_clients := ps_clients p; ps_last_clean := ps_last_clean p |} in
          Ok ({| st_learned := st_learned st; st_proxies := set_nth_p (st_proxies st) li p1;
                 st_conns := st_conns st; st_world := st_world st |}, [])
      | None => Ok (st, [])
      end
  | EvBackendRemove li addr =>
      match nth_p (st_proxies st) li with
      | Some p =>
          let '(r', closed) := rr_remove addr (ps_rr p) in
          let p1 := {| ps_backends := if mem_bytes addr (rr_map (ps_rr p)) then adel addr (ps_backends p) else ps_backends p;
                       ps_rr := r'; ps_has_rr := ps_has_rr p; ps_gen := ps_gen p; ps_pins := ps_pins p;
                       ps_table := ps_table p; ps_clients := ps_clients p; ps_last_clean := ps_last_clean p |} in
          Ok ({| st_learned := st_learned st; st_proxies := set_nth_p (st_proxies st) li p1;
                 st_conns := st_conns st; st_world := st_world st |}, [])
      | None => Ok (st, [])
      end
  end.

(* initial state: NewProxy / NewProxyItem / CreateRoundRobinBackend for every listen entry *)
Definition init_pstate (c : cfg) (now : Z) (lc : listen_cfg) : pstate :=
  let n := List.length (lc_backends lc) in
  {| ps_backends := fold_left (fun acc '(a, g) => aset a g acc) (combine (lc_backends lc) (seq 0 n)) [];
     ps_rr := fold_left (fun r a => rr_add a r) (lc_backends lc) rr_init;
     ps_has_rr := negb (Nat.eqb n 0) || lc_dynamic lc;
     ps_gen := n;
     ps_pins := pins_new (c_dialog_timeout c) now;
     ps_table := []; ps_clients := []; ps_last_clean := Z.div now second |}.
Definition init_state (c : cfg) (now : Z) (tcp_listeners : list (bytes * Z)) : state :=
  {| st_learned := []; st_proxies := map (init_pstate c now) (c_listens c); st_conns := [];
     st_world := {| w_tcp_listeners := tcp_listeners; w_next_conn := 0 |} |}.
